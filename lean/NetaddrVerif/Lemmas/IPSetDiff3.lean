/-
Lemmas/IPSetDiff3.lean — the two-cursor sweeps of `difference` and `symmetric_difference`
over two ascending key lists: what they add to `result_cidrs` / `result_ranges` (C07/C06).
-/
import NetaddrVerif.Lemmas.IPSetDiff2
namespace NV.IPSet
open NV NV.Blk

/-- everything denoted by an ascending list lies at or above the start of its head -/
theorem asc_ge {a : Net} {l : List Net} (h : Asc (a :: l)) (x : Nat) (hx : nden (a :: l) x) : L a ≤ x := by
  rcases (nden_cons a l x).1 hx with h1 | h1
  · exact h1.1
  · have := asc_above h x h1; have := L_le_H a (asc_head h).1; omega

theorem diffSweep_cons (fuel : Nat) (a b : Net) (as bs : List Net) (cs : St) (rs : List VR) :
    diffSweep (fuel + 1) (a :: as) (b :: bs) cs rs =
      if keyEq a b then diffSweep fuel as bs cs rs
      else if netIn a b then diffSweep fuel as (b :: bs) cs rs
      else if netIn b a then
        diffSweep fuel as (subtract a (b :: bs) rs).1 cs (subtract a (b :: bs) rs).2
      else if netLt a b then diffSweep fuel as (b :: bs) (dInsert cs a) rs
      else diffSweep fuel (a :: as) bs cs rs := rfl

/-- the sweep of `difference`: the keys `cn` put into `result_cidrs` are keys of the first
    operand; the tuples `rn` appended to `result_ranges` are valid, ascending, not
    overlapping, each inside a key of the first operand and apart from every key in `cn`;
    together they denote the first operand minus the second -/
theorem diffSweep_spec : ∀ (fuel : Nat) (as bs : List Net) (cs : St) (rs : List VR),
    Asc as → Asc bs → as.length + bs.length < fuel →
    ∃ cn rn, diffSweep fuel as bs cs rs = (cn.foldl dInsert cs, rs ++ rn) ∧
      (∀ n ∈ cn, n ∈ as) ∧
      (∀ r ∈ rn, VROK r ∧ ∃ a ∈ as, L a ≤ r.L ∧ r.H ≤ H a) ∧
      rn.Pairwise (fun r r' => r.H < r'.L) ∧
      (∀ n ∈ cn, ∀ r ∈ rn, H n < r.L ∨ r.H < L n) ∧
      ∀ x, (nden cn x ∨ rden rn x) ↔ (nden as x ∧ ¬ nden bs x) := by
  intro fuel
  induction fuel with
  | zero => intro as bs cs rs _ _ h; omega
  | succ fuel ih =>
    intro as bs cs rs hasca hascb hlen
    match as, bs with
    | [], bs =>
      refine ⟨[], [], by simp [diffSweep], by simp, by simp, List.Pairwise.nil, by simp, fun x => ?_⟩
      have := nden_nil x; have := rden_nil x
      constructor
      · rintro (h | h) <;> contradiction
      · rintro ⟨h, _⟩; contradiction
    | a :: as, [] =>
      refine ⟨a :: as, [], by simp [diffSweep], fun n h => h, by simp, List.Pairwise.nil, by simp, fun x => ?_⟩
      have := nden_nil x; have := rden_nil x
      constructor
      · rintro (h | h)
        · exact ⟨h, by assumption⟩
        · contradiction
      · rintro ⟨h, _⟩; exact Or.inl h
    | a :: as, b :: bs =>
      have hag := asc_head hasca
      have hbg := asc_head hascb
      have hasca' := asc_tail hasca
      have hascb' := asc_tail hascb
      have la := L_le_H a hag.1
      have lb := L_le_H b hbg.1
      simp only [List.length_cons] at hlen
      rw [diffSweep_cons]
      by_cases h1 : keyEq a b = true
      · -- the same block in both operands
        simp only [h1, if_true]
        obtain ⟨e1, e2⟩ := (keyEq_LH a b hag.1 hbg.1).1 h1
        obtain ⟨cn, rn, e, hcn, hrn, hpw, hdj, hden⟩ := ih as bs cs rs hasca' hascb' (by omega)
        refine ⟨cn, rn, e, fun n hn => List.mem_cons_of_mem _ (hcn n hn), ?_, hpw, hdj, fun x => ?_⟩
        · intro r hr
          obtain ⟨q1, c, hc, q2⟩ := hrn r hr
          exact ⟨q1, c, List.mem_cons_of_mem _ hc, q2⟩
        · have k1 := asc_above hasca x
          have k2 := asc_above hascb x
          rw [hden x, nden_cons, nden_cons]
          clear ih hden
          grind
      · have h1' : keyEq a b = false := by simpa using h1
        simp only [h1', Bool.false_eq_true, if_false]
        by_cases h2 : netIn a b = true
        · -- own block inside a block of the other operand: dropped
          simp only [h2, if_true]
          have e2 := (netIn_LH a b hag.1 hbg.1).1 h2
          obtain ⟨cn, rn, e, hcn, hrn, hpw, hdj, hden⟩ := ih as (b :: bs) cs rs hasca' hascb
            (by simp only [List.length_cons]; omega)
          refine ⟨cn, rn, e, fun n hn => List.mem_cons_of_mem _ (hcn n hn), ?_, hpw, hdj, fun x => ?_⟩
          · intro r hr
            obtain ⟨q1, c, hc, q2⟩ := hrn r hr
            exact ⟨q1, c, List.mem_cons_of_mem _ hc, q2⟩
          · rw [hden x, nden_cons a, nden_cons b]
            clear ih hden
            grind
        · have h2' : netIn a b = false := by simpa using h2
          simp only [h2', Bool.false_eq_true, if_false]
          by_cases h3 : netIn b a = true
          · -- blocks of the other operand inside an own block: `_subtract`
            simp only [h3, if_true]
            obtain ⟨pre, new, rest', es, hsplit, hl, habove, hprein, hnew, hpwn, hdn⟩ :=
              subtract_spec a hag b bs rs hascb h3
            rw [es]
            have hascr : Asc rest' := by
              have : Asc (pre ++ rest') := by rw [← hsplit]; exact hascb
              exact asc_suffix pre this
            obtain ⟨cn, rn, e, hcn, hrn, hpw, hdj, hden⟩ := ih as rest' cs (rs ++ new) hasca' hascr (by omega)
            refine ⟨cn, new ++ rn, by rw [e, List.append_assoc], fun n hn => List.mem_cons_of_mem _ (hcn n hn),
              ?_, ?_, ?_, fun x => ?_⟩
            · intro r hr
              rcases List.mem_append.1 hr with hr | hr
              · obtain ⟨q1, q2, q3⟩ := hnew r hr
                exact ⟨q1, a, List.mem_cons_self .., q2, q3⟩
              · obtain ⟨q1, c, hc, q2⟩ := hrn r hr
                exact ⟨q1, c, List.mem_cons_of_mem _ hc, q2⟩
            · rw [List.pairwise_append]
              refine ⟨hpwn, hpw, ?_⟩
              intro r hr r' hr'
              obtain ⟨_, _, q3⟩ := hnew r hr
              obtain ⟨_, c, hc, q2, _⟩ := hrn r' hr'
              have := asc_lt hasca c hc
              omega
            · intro n hn r hr
              rcases List.mem_append.1 hr with hr | hr
              · obtain ⟨_, _, q3⟩ := hnew r hr
                have := asc_lt hasca n (hcn n hn)
                right; omega
              · exact hdj n hn r hr
            · have k1 := asc_above hasca x
              have k2 : nden rest' x → H a < x := by
                rintro ⟨c, hc, q, _⟩; have := habove c hc; omega
              have k3 := hprein x
              have e3 : nden (b :: bs) x ↔ nden pre x ∨ nden rest' x := by rw [hsplit, nden_append]
              rw [rden_append, e3, nden_cons, hdn x]
              have := hden x
              clear ih hden hdn
              grind
          · have h3' : netIn b a = false := by simpa using h3
            simp only [h3', Bool.false_eq_true, if_false]
            have hapart : H a < L b ∨ H b < L a := by
              rcases laminar a b hag.1 hbg.1 with h | h | h | h
              · exact absurd h h2
              · exact absurd h h3
              · exact Or.inl h
              · exact Or.inr h
            have e4 := netLt_LH a b hag.1 hbg.1 hapart
            by_cases h4 : netLt a b = true
            · -- own block entirely below: kept whole
              simp only [h4, if_true]
              have hab := e4.1 h4
              obtain ⟨cn, rn, e, hcn, hrn, hpw, hdj, hden⟩ := ih as (b :: bs) (dInsert cs a) rs hasca' hascb
                (by simp only [List.length_cons]; omega)
              refine ⟨a :: cn, rn, e, ?_, ?_, hpw, ?_, fun x => ?_⟩
              · intro n hn
                rcases List.mem_cons.1 hn with rfl | hn
                · exact List.mem_cons_self ..
                · exact List.mem_cons_of_mem _ (hcn n hn)
              · intro r hr
                obtain ⟨q1, c, hc, q2⟩ := hrn r hr
                exact ⟨q1, c, List.mem_cons_of_mem _ hc, q2⟩
              · intro n hn r hr
                rcases List.mem_cons.1 hn with rfl | hn
                · obtain ⟨_, c, hc, q2, _⟩ := hrn r hr
                  have := asc_lt hasca c hc
                  left; omega
                · exact hdj n hn r hr
              · have k1 := asc_ge hascb x
                have := hden x
                rw [nden_cons a cn, nden_cons a as]
                clear ih hden
                grind
            · -- block of the other operand entirely below: skipped
              have h4' : netLt a b = false := by simpa using h4
              simp only [h4', Bool.false_eq_true, if_false]
              have hba : H b < L a := by
                rcases hapart with h | h
                · exact absurd (e4.2 h) h4
                · exact h
              obtain ⟨cn, rn, e, hcn, hrn, hpw, hdj, hden⟩ := ih (a :: as) bs cs rs hasca hascb'
                (by simp only [List.length_cons]; omega)
              refine ⟨cn, rn, e, hcn, hrn, hpw, hdj, fun x => ?_⟩
              have k1 := asc_ge hasca x
              rw [hden x, nden_cons b bs]
              clear ih hden
              grind

theorem xorSweep_nil_right (fuel : Nat) (as : List Net) (rs : List VR) :
    xorSweep (fuel + 1) as [] rs = rs ++ as.map vrOf := by
  cases as <;> rfl

theorem xorSweep_nil_left (fuel : Nat) (b : Net) (bs : List Net) (rs : List VR) :
    xorSweep (fuel + 1) [] (b :: bs) rs = rs ++ (b :: bs).map vrOf := rfl

theorem xorSweep_cons (fuel : Nat) (a b : Net) (as bs : List Net) (rs : List VR) :
    xorSweep (fuel + 1) (a :: as) (b :: bs) rs =
      if keyEq a b then xorSweep fuel as bs rs
      else if netIn a b then
        xorSweep fuel (subtract b (a :: as) rs).1 bs (subtract b (a :: as) rs).2
      else if netIn b a then
        xorSweep fuel as (subtract a (b :: bs) rs).1 (subtract a (b :: bs) rs).2
      else if netLt a b then xorSweep fuel as (b :: bs) (rs ++ [vrOf a])
      else xorSweep fuel (a :: as) bs (rs ++ [vrOf b]) := rfl

/-- whole keys as range tuples -/
theorem vrOf_list (l : List Net) (h : Asc l) :
    (∀ r ∈ l.map vrOf, VROK r ∧ ∃ c ∈ l, L c ≤ r.L ∧ r.H ≤ H c) ∧
    (l.map vrOf).Pairwise (fun r r' => r.H < r'.L) := by
  refine ⟨?_, ?_⟩
  · intro r hr
    obtain ⟨n, hn, rfl⟩ := List.mem_map.1 hr
    exact ⟨vrok_of_net n (h.1 n hn).1, n, hn, Nat.le_refl _, Nat.le_refl _⟩
  · rw [List.pairwise_map]; exact h.2

/-- the sweep of `symmetric_difference`: the tuples appended to `result_ranges` are valid,
    ascending, not overlapping, each inside a key of one operand, and denote the addresses
    in exactly one operand -/
theorem xorSweep_spec : ∀ (fuel : Nat) (as bs : List Net) (rs : List VR),
    Asc as → Asc bs → as.length + bs.length < fuel →
    ∃ rn, xorSweep fuel as bs rs = rs ++ rn ∧
      (∀ r ∈ rn, VROK r ∧ ∃ c, (c ∈ as ∨ c ∈ bs) ∧ L c ≤ r.L ∧ r.H ≤ H c) ∧
      rn.Pairwise (fun r r' => r.H < r'.L) ∧
      ∀ x, rden rn x ↔ (nden as x ∧ ¬ nden bs x) ∨ (nden bs x ∧ ¬ nden as x) := by
  intro fuel
  induction fuel with
  | zero => intro as bs rs _ _ h; omega
  | succ fuel ih =>
    intro as bs rs hasca hascb hlen
    match as, bs with
    | as, [] =>
      obtain ⟨q1, q2⟩ := vrOf_list as hasca
      refine ⟨as.map vrOf, xorSweep_nil_right fuel as rs, ?_, q2, fun x => ?_⟩
      · intro r hr
        obtain ⟨k1, c, hc, k2⟩ := q1 r hr
        exact ⟨k1, c, Or.inl hc, k2⟩
      · have := nden_nil x
        rw [rden_map_vrOf]
        grind
    | [], b :: bs =>
      obtain ⟨q1, q2⟩ := vrOf_list (b :: bs) hascb
      refine ⟨(b :: bs).map vrOf, xorSweep_nil_left fuel b bs rs, ?_, q2, fun x => ?_⟩
      · intro r hr
        obtain ⟨k1, c, hc, k2⟩ := q1 r hr
        exact ⟨k1, c, Or.inr hc, k2⟩
      · have := nden_nil x
        rw [rden_map_vrOf]
        grind
    | a :: as, b :: bs =>
      have hag := asc_head hasca
      have hbg := asc_head hascb
      have hasca' := asc_tail hasca
      have hascb' := asc_tail hascb
      have la := L_le_H a hag.1
      have lb := L_le_H b hbg.1
      simp only [List.length_cons] at hlen
      rw [xorSweep_cons]
      by_cases h1 : keyEq a b = true
      · simp only [h1, if_true]
        obtain ⟨e1, e2⟩ := (keyEq_LH a b hag.1 hbg.1).1 h1
        obtain ⟨rn, e, hrn, hpw, hden⟩ := ih as bs rs hasca' hascb' (by omega)
        refine ⟨rn, e, ?_, hpw, fun x => ?_⟩
        · intro r hr
          obtain ⟨q1, c, hc, q2⟩ := hrn r hr
          exact ⟨q1, c, hc.imp (List.mem_cons_of_mem _) (List.mem_cons_of_mem _), q2⟩
        · have k1 := asc_above hasca x
          have k2 := asc_above hascb x
          rw [hden x, nden_cons, nden_cons]
          clear ih hden
          grind
      · have h1' : keyEq a b = false := by simpa using h1
        simp only [h1', Bool.false_eq_true, if_false]
        by_cases h2 : netIn a b = true
        · -- own blocks inside a block of the other operand
          simp only [h2, if_true]
          obtain ⟨pre, new, rest', es, hsplit, hl, habove, hprein, hnew, hpwn, hdn⟩ :=
            subtract_spec b hbg a as rs hasca h2
          rw [es]
          have hascr : Asc rest' := by
            have : Asc (pre ++ rest') := by rw [← hsplit]; exact hasca
            exact asc_suffix pre this
          obtain ⟨rn, e, hrn, hpw, hden⟩ := ih rest' bs (rs ++ new) hascr hascb' (by omega)
          refine ⟨new ++ rn, by rw [e, List.append_assoc], ?_, ?_, fun x => ?_⟩
          · intro r hr
            rcases List.mem_append.1 hr with hr | hr
            · obtain ⟨q1, q2, q3⟩ := hnew r hr
              exact ⟨q1, b, Or.inr (List.mem_cons_self ..), q2, q3⟩
            · obtain ⟨q1, c, hc, q2⟩ := hrn r hr
              refine ⟨q1, c, ?_, q2⟩
              rcases hc with hc | hc
              · left; rw [hsplit]; exact List.mem_append_right _ hc
              · right; exact List.mem_cons_of_mem _ hc
          · rw [List.pairwise_append]
            refine ⟨hpwn, hpw, ?_⟩
            intro r hr r' hr'
            obtain ⟨_, _, q3⟩ := hnew r hr
            obtain ⟨_, c, hc, q2, _⟩ := hrn r' hr'
            rcases hc with hc | hc
            · have := habove c hc; omega
            · have := asc_lt hascb c hc; omega
          · have k1 := asc_above hascb x
            have k2 : nden rest' x → H b < x := by
              rintro ⟨c, hc, q, _⟩; have := habove c hc; omega
            have k3 := hprein x
            have e3 : nden (a :: as) x ↔ nden pre x ∨ nden rest' x := by rw [hsplit, nden_append]
            rw [rden_append, e3, nden_cons, hdn x]
            have := hden x
            clear ih hden hdn
            grind
        · have h2' : netIn a b = false := by simpa using h2
          simp only [h2', Bool.false_eq_true, if_false]
          by_cases h3 : netIn b a = true
          · -- blocks of the other operand inside an own block
            simp only [h3, if_true]
            obtain ⟨pre, new, rest', es, hsplit, hl, habove, hprein, hnew, hpwn, hdn⟩ :=
              subtract_spec a hag b bs rs hascb h3
            rw [es]
            have hascr : Asc rest' := by
              have : Asc (pre ++ rest') := by rw [← hsplit]; exact hascb
              exact asc_suffix pre this
            obtain ⟨rn, e, hrn, hpw, hden⟩ := ih as rest' (rs ++ new) hasca' hascr (by omega)
            refine ⟨new ++ rn, by rw [e, List.append_assoc], ?_, ?_, fun x => ?_⟩
            · intro r hr
              rcases List.mem_append.1 hr with hr | hr
              · obtain ⟨q1, q2, q3⟩ := hnew r hr
                exact ⟨q1, a, Or.inl (List.mem_cons_self ..), q2, q3⟩
              · obtain ⟨q1, c, hc, q2⟩ := hrn r hr
                refine ⟨q1, c, ?_, q2⟩
                rcases hc with hc | hc
                · left; exact List.mem_cons_of_mem _ hc
                · right; rw [hsplit]; exact List.mem_append_right _ hc
            · rw [List.pairwise_append]
              refine ⟨hpwn, hpw, ?_⟩
              intro r hr r' hr'
              obtain ⟨_, _, q3⟩ := hnew r hr
              obtain ⟨_, c, hc, q2, _⟩ := hrn r' hr'
              rcases hc with hc | hc
              · have := asc_lt hasca c hc; omega
              · have := habove c hc; omega
            · have k1 := asc_above hasca x
              have k2 : nden rest' x → H a < x := by
                rintro ⟨c, hc, q, _⟩; have := habove c hc; omega
              have k3 := hprein x
              have e3 : nden (b :: bs) x ↔ nden pre x ∨ nden rest' x := by rw [hsplit, nden_append]
              rw [rden_append, e3, nden_cons, hdn x]
              have := hden x
              clear ih hden hdn
              grind
          · have h3' : netIn b a = false := by simpa using h3
            simp only [h3', Bool.false_eq_true, if_false]
            have hapart : H a < L b ∨ H b < L a := by
              rcases laminar a b hag.1 hbg.1 with h | h | h | h
              · exact absurd h h2
              · exact absurd h h3
              · exact Or.inl h
              · exact Or.inr h
            have e4 := netLt_LH a b hag.1 hbg.1 hapart
            by_cases h4 : netLt a b = true
            · simp only [h4, if_true]
              have hab := e4.1 h4
              obtain ⟨rn, e, hrn, hpw, hden⟩ := ih as (b :: bs) (rs ++ [vrOf a]) hasca' hascb
                (by simp only [List.length_cons]; omega)
              refine ⟨vrOf a :: rn, by rw [e, List.append_assoc]; rfl, ?_, ?_, fun x => ?_⟩
              · intro r hr
                rcases List.mem_cons.1 hr with rfl | hr
                · exact ⟨vrok_of_net a hag.1, a, Or.inl (List.mem_cons_self ..), Nat.le_refl _, Nat.le_refl _⟩
                · obtain ⟨q1, c, hc, q2⟩ := hrn r hr
                  exact ⟨q1, c, hc.imp_left (List.mem_cons_of_mem _), q2⟩
              · refine List.pairwise_cons.2 ⟨?_, hpw⟩
                intro r hr
                obtain ⟨_, c, hc, q2, _⟩ := hrn r hr
                rw [vrOf_H]
                rcases hc with hc | hc
                · have := asc_lt hasca c hc; omega
                · rcases List.mem_cons.1 hc with rfl | hc
                  · omega
                  · have := asc_lt hascb c hc; omega
              · have k1 := asc_ge hascb x
                have k2 := asc_above hasca x
                have := hden x
                rw [rden_cons, vrOf_L, vrOf_H, nden_cons a as]
                clear ih hden
                grind
            · have h4' : netLt a b = false := by simpa using h4
              simp only [h4', Bool.false_eq_true, if_false]
              have hba : H b < L a := by
                rcases hapart with h | h
                · exact absurd (e4.2 h) h4
                · exact h
              obtain ⟨rn, e, hrn, hpw, hden⟩ := ih (a :: as) bs (rs ++ [vrOf b]) hasca hascb'
                (by simp only [List.length_cons]; omega)
              refine ⟨vrOf b :: rn, by rw [e, List.append_assoc]; rfl, ?_, ?_, fun x => ?_⟩
              · intro r hr
                rcases List.mem_cons.1 hr with rfl | hr
                · exact ⟨vrok_of_net b hbg.1, b, Or.inr (List.mem_cons_self ..), Nat.le_refl _, Nat.le_refl _⟩
                · obtain ⟨q1, c, hc, q2⟩ := hrn r hr
                  exact ⟨q1, c, hc.imp_right (List.mem_cons_of_mem _), q2⟩
              · refine List.pairwise_cons.2 ⟨?_, hpw⟩
                intro r hr
                obtain ⟨_, c, hc, q2, _⟩ := hrn r hr
                rw [vrOf_H]
                rcases hc with hc | hc
                · rcases List.mem_cons.1 hc with rfl | hc
                  · omega
                  · have := asc_lt hasca c hc; omega
                · have := asc_lt hascb c hc; omega
              · have k1 := asc_ge hasca x
                have k2 := asc_above hascb x
                have := hden x
                rw [rden_cons, vrOf_L, vrOf_H, nden_cons b bs]
                clear ih hden
                grind

end NV.IPSet
