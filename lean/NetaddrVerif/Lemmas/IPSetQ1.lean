/-
Lemmas/IPSetQ1.lean — counting addresses of a list of pairwise disjoint blocks without any
cardinality library: `cum l N` is the number of denoted points below `N`; it grows by one
exactly at denoted points.  Consequence: inclusion of denotations bounds the totals, and
equal totals under inclusion force equal denotations (C07 `<` / `>`).
-/
import NetaddrVerif.Lemmas.Canon
namespace NV
open Blk

/-- total number of points of a block list (with multiplicity) -/
def total : List Blk → Nat
  | [] => 0
  | b :: l => 2 ^ b.k + total l

/-- points below `N`, with multiplicity -/
def cum : List Blk → Nat → Nat
  | [], _ => 0
  | b :: l, N => (min (b.base + 2 ^ b.k) N - min b.base N) + cum l N

/-- how many blocks of the list contain `N` -/
def hits : List Blk → Nat → Nat
  | [], _ => 0
  | b :: l, N => (if b.base ≤ N ∧ N < b.base + 2 ^ b.k then 1 else 0) + hits l N

theorem cum_zero (l : List Blk) : cum l 0 = 0 := by
  induction l with
  | nil => rfl
  | cons b l ih => simp [cum, ih]

theorem cum_succ (l : List Blk) (N : Nat) : cum l (N + 1) = cum l N + hits l N := by
  induction l with
  | nil => rfl
  | cons b l ih =>
    simp only [cum, hits, ih]
    have hp := pow_pos' b.k
    split <;> omega

/-- beyond every block the count is the total -/
theorem cum_top (l : List Blk) (M : Nat) (h : ∀ b ∈ l, b.base + 2 ^ b.k ≤ M) : cum l M = total l := by
  induction l with
  | nil => rfl
  | cons b l ih =>
    simp only [cum, total]
    rw [ih (fun c hc => h c (List.mem_cons_of_mem _ hc))]
    have := h b (List.mem_cons_self ..)
    generalize 2 ^ b.k = p at *
    omega

theorem hits_zero_of_not_den (l : List Blk) (N : Nat) (h : ¬ den l N) : hits l N = 0 := by
  induction l with
  | nil => rfl
  | cons b l ih =>
    simp only [hits]
    have h1 : ¬ (b.base ≤ N ∧ N < b.base + 2 ^ b.k) := fun hm => h ⟨b, List.mem_cons_self .., hm⟩
    have h2 : ¬ den l N := fun ⟨c, hc, hm⟩ => h ⟨c, List.mem_cons_of_mem _ hc, hm⟩
    rw [if_neg h1, ih h2]

theorem hits_one_of_den (l : List Blk) (hd : l.Pairwise Blk.disj) (N : Nat) (h : den l N) : hits l N = 1 := by
  induction l with
  | nil => obtain ⟨b, hb, _⟩ := h; simp at hb
  | cons b l ih =>
    have hd' := List.pairwise_cons.1 hd
    simp only [hits]
    by_cases hb : b.base ≤ N ∧ N < b.base + 2 ^ b.k
    · rw [if_pos hb, hits_zero_of_not_den l N]
      rintro ⟨c, hc, hm⟩
      exact hd'.1 c hc N ⟨hb, hm⟩
    · rw [if_neg hb]
      obtain ⟨c, hc, hm⟩ := h
      rcases List.mem_cons.1 hc with e | e
      · exact absurd (e ▸ hm) hb
      · rw [ih hd'.2 ⟨c, e, hm⟩]

/-- the surplus of the larger set never shrinks -/
theorem cum_diff_mono (A B : List Blk) (hA : A.Pairwise Blk.disj) (hB : B.Pairwise Blk.disj)
    (hsub : ∀ x, den A x → den B x) (N : Nat) : ∀ d, cum A (N + d) + cum B N ≤ cum B (N + d) + cum A N := by
  intro d
  induction d with
  | zero => simp; omega
  | succ d ih =>
    rw [← Nat.add_assoc, cum_succ, cum_succ]
    by_cases h : den A (N + d)
    · rw [hits_one_of_den A hA _ h, hits_one_of_den B hB _ (hsub _ h)]; omega
    · rw [hits_zero_of_not_den A _ h]; omega

theorem cum_le (A B : List Blk) (hA : A.Pairwise Blk.disj) (hB : B.Pairwise Blk.disj)
    (hsub : ∀ x, den A x → den B x) (N : Nat) : cum A N ≤ cum B N := by
  have := cum_diff_mono A B hA hB hsub 0 N
  simp only [Nat.zero_add, cum_zero] at this
  omega

theorem mem_le_top (l : List Blk) : ∃ M, ∀ b ∈ l, b.base + 2 ^ b.k ≤ M := by
  induction l with
  | nil => exact ⟨0, by simp⟩
  | cons b l ih =>
    obtain ⟨M, hM⟩ := ih
    refine ⟨max M (b.base + 2 ^ b.k), ?_⟩
    intro c hc
    rcases List.mem_cons.1 hc with e | e
    · subst e; omega
    · have := hM c e; omega

/-- inclusion of denotations bounds the totals -/
theorem total_le_of_sub (A B : List Blk) (hA : A.Pairwise Blk.disj) (hB : B.Pairwise Blk.disj)
    (hsub : ∀ x, den A x → den B x) : total A ≤ total B := by
  obtain ⟨M1, h1⟩ := mem_le_top A
  obtain ⟨M2, h2⟩ := mem_le_top B
  have e1 := cum_top A (max M1 M2) (fun b hb => by have := h1 b hb; omega)
  have e2 := cum_top B (max M1 M2) (fun b hb => by have := h2 b hb; omega)
  have := cum_le A B hA hB hsub (max M1 M2)
  omega

/-- … and equal totals under inclusion force equal denotations -/
theorem den_eq_of_total_eq (A B : List Blk) (hA : A.Pairwise Blk.disj) (hB : B.Pairwise Blk.disj)
    (hsub : ∀ x, den A x → den B x) (ht : total A = total B) : ∀ x, den B x → den A x := by
  intro x hx
  apply Classical.byContradiction
  intro hn
  obtain ⟨M1, h1⟩ := mem_le_top A
  obtain ⟨M2, h2⟩ := mem_le_top B
  -- at x the surplus becomes positive and stays
  have s1 : cum A (x + 1) + 1 ≤ cum B (x + 1) := by
    rw [cum_succ, cum_succ, hits_zero_of_not_den A x hn, hits_one_of_den B hB x hx]
    have := cum_le A B hA hB hsub x
    omega
  have s2 := cum_diff_mono A B hA hB hsub (x + 1) (max M1 M2)
  have e1 := cum_top A (x + 1 + max M1 M2) (fun b hb => by have := h1 b hb; omega)
  have e2 := cum_top B (x + 1 + max M1 M2) (fun b hb => by have := h2 b hb; omega)
  omega

end NV
