/-
Lemmas/C10L.lean — spec vocabulary of C10 (the list of addresses of a ranged object, Python
integer indexing and slicing of a list) and the helper lemmas behind Props/C10.lean.
-/
import NetaddrVerif.Model.ListLike
import NetaddrVerif.Lemmas.NetworkL
namespace NV.ListLike
open NV

/-! ### spec vocabulary -/

/-- well-formed ranged object: a family, `first ≤ last ≤ max_int` -/
structure Ranged.WF (x : Ranged) : Prop where
  ver : x.ver = 4 ∨ x.ver = 6
  le : x.first ≤ x.last
  max : x.last ≤ maxInt x.ver

/-- the list of addresses of a ranged object: `first, first+1, …, last`, each once, ascending -/
def listOf (x : Ranged) : List Addr :=
  (List.range (x.last - x.first + 1)).map (fun k => ⟨x.ver, x.first + k⟩)

/-- Python `l[i]` for an int `i`: `IndexError` unless `-len(l) ≤ i < len(l)`; negative indices
    count from the end -/
def pyIndex {α : Type} (l : List α) (i : Int) : R α :=
  if 0 ≤ i ∧ i < l.length then
    match l[i.toNat]? with
    | some a => .ok a
    | none => .error .index
  else if -(l.length : Int) ≤ i ∧ i < 0 then
    match l[((l.length : Int) + i).toNat]? with
    | some a => .ok a
    | none => .error .index
  else .error .index

/-- Python `l[a:b:c]`: the elements at `range(*slice(a, b, c).indices(len(l)))`, `ValueError`
    for a zero step.  (`Py.sliceIndices`/`Py.pyRange` are CPython's definitions, tied to CPython
    itself by the `pyslice` platform op; `sliceIdx_in_range` shows that no position is dropped.) -/
def pySlice {α : Type} (l : List α) (a b c : Option Int) : R (List α) :=
  match Py.sliceIndices a b c l.length with
  | none => .error .value
  | some (s, e, st) => .ok ((Py.pyRange s e st).filterMap (fun i => if 0 ≤ i then l[i.toNat]? else none))

/-! ### basic facts -/

theorem length_listOf (x : Ranged) : (listOf x).length = x.last - x.first + 1 := by
  simp [listOf]

theorem size_eq (x : Ranged) (h : x.WF) : size x = ((listOf x).length : Int) := by
  have := h.le
  rw [length_listOf]; unfold size; omega

theorem getElem?_listOf (x : Ranged) (k : Nat) (hk : k < x.last - x.first + 1) :
    (listOf x)[k]? = some ⟨x.ver, x.first + k⟩ := by
  simp [listOf, List.getElem?_map, List.getElem?_range hk]

theorem mkAddr_ok (ver : Nat) (v : Int) (hver : ver = 4 ∨ ver = 6) (h0 : 0 ≤ v) (h1 : v ≤ (maxInt ver : Int)) :
    mkAddr ver v = .ok ⟨ver, v.toNat⟩ := by
  unfold mkAddr; simp [hver, h0, h1]

theorem ofNet_wf (n : Net) (h : n.WF) : (ofNet n).WF := by
  obtain ⟨hver, hv, hp⟩ := h
  have hb := block_lt (width n.ver) n.val n.plen hv hp
  have hf := netFirst_eq (width n.ver) n.val n.plen hv
  have hl := netLast_eq (width n.ver) n.val n.plen
  have hH := NV.two_pow_pos (width n.ver - n.plen)
  refine ⟨hver, ?_, ?_⟩
  · show netFirst _ _ _ ≤ netLast _ _ _; rw [hf, hl]; omega
  · show netLast _ _ _ ≤ maxInt n.ver; rw [hl]; unfold maxInt; omega

theorem ofRng_wf (r : Rng) (hver : r.ver = 4 ∨ r.ver = 6) (hle : r.lo ≤ r.hi) (hmax : r.hi ≤ maxInt r.ver) :
    (ofRng r).WF := ⟨hver, hle, hmax⟩

/-! ### the loop of `iter_iprange` -/

theorem map_range_succ {β : Type} (f : Nat → β) (n : Nat) :
    (List.range (n + 1)).map f = f 0 :: (List.range n).map (fun i => f (i + 1)) := by
  rw [List.range_succ_eq_map, List.map_cons, List.map_map]; rfl

/-- positive step: with `fuel` iterations from `index` the loop yields `index + step·(i+1)` for
    `i < n`, where all of these are `≤ stop`, and if the fuel did not run out the next one is
    beyond `stop` -/
theorem iprLoop_pos (ver : Nat) (stop step : Int) (hver : ver = 4 ∨ ver = 6) (hstep : 0 < step)
    (hstop : stop ≤ (maxInt ver : Int)) :
    ∀ (fuel : Nat) (index : Int), 0 ≤ index + step →
    ∃ n : Nat, n ≤ fuel ∧
      iprLoop ver stop step false fuel index =
        .ok ((List.range n).map (fun (i : Nat) => (⟨ver, (index + step + step * (i : Int)).toNat⟩ : Addr))) ∧
      (∀ i : Nat, i < n → index + step + step * (i : Int) ≤ stop) ∧
      (n < fuel → stop < index + step + step * (n : Int)) := by
  intro fuel
  induction fuel with
  | zero => intro index _; exact ⟨0, Nat.le_refl _, rfl, by intro i hi; omega, by omega⟩
  | succ f ih =>
    intro index h0
    by_cases hc : index + step ≤ stop
    · obtain ⟨n, hn, hr, hall, hnext⟩ := ih (index + step) (by omega)
      refine ⟨n + 1, by omega, ?_, ?_, ?_⟩
      · unfold iprLoop
        simp only [Bool.false_eq_true, if_false, hc, not_true_eq_false]
        rw [mkAddr_ok ver (index + step) hver h0 (by omega), hr, map_range_succ]
        simp only [bind, Except.bind, pure, Except.pure]
        congr 2
        · simp
        · apply List.map_congr_left
          intro i _
          have : step * ((i + 1 : Nat) : Int) = step * (i : Int) + step := by
            rw [Int.natCast_add, Int.mul_add]; simp
          rw [this]; congr 2; omega
      · intro i hi
        cases i with
        | zero => simp; exact hc
        | succ j =>
          have := hall j (by omega)
          have e : step * ((j + 1 : Nat) : Int) = step * (j : Int) + step := by
            rw [Int.natCast_add, Int.mul_add]; simp
          rw [e]; omega
      · intro hlt
        have := hnext (by omega)
        have e : step * ((n + 1 : Nat) : Int) = step * (n : Int) + step := by
          rw [Int.natCast_add, Int.mul_add]; simp
        rw [e]; omega
    · refine ⟨0, by omega, ?_, by intro i hi; omega, ?_⟩
      · unfold iprLoop
        simp only [Bool.false_eq_true, if_false, hc, not_false_eq_true, if_true]; rfl
      · intro _; simp; omega

/-- negative step: the mirror image; the yielded values stay `≥ stop ≥ 0` -/
theorem iprLoop_neg (ver : Nat) (stop step : Int) (hver : ver = 4 ∨ ver = 6) (hstep : step < 0)
    (hstop : 0 ≤ stop) :
    ∀ (fuel : Nat) (index : Int), index + step ≤ (maxInt ver : Int) →
    ∃ n : Nat, n ≤ fuel ∧
      iprLoop ver stop step true fuel index =
        .ok ((List.range n).map (fun (i : Nat) => (⟨ver, (index + step + step * (i : Int)).toNat⟩ : Addr))) ∧
      (∀ i : Nat, i < n → stop ≤ index + step + step * (i : Int)) ∧
      (n < fuel → index + step + step * (n : Int) < stop) := by
  intro fuel
  induction fuel with
  | zero => intro index _; exact ⟨0, Nat.le_refl _, rfl, by intro i hi; omega, by omega⟩
  | succ f ih =>
    intro index h0
    by_cases hc : index + step ≥ stop
    · obtain ⟨n, hn, hr, hall, hnext⟩ := ih (index + step) (by omega)
      refine ⟨n + 1, by omega, ?_, ?_, ?_⟩
      · unfold iprLoop
        simp only [if_true, hc, not_true_eq_false, if_false]
        rw [mkAddr_ok ver (index + step) hver (by omega) h0, hr, map_range_succ]
        simp only [bind, Except.bind, pure, Except.pure]
        congr 2
        · simp
        · apply List.map_congr_left
          intro i _
          have : step * ((i + 1 : Nat) : Int) = step * (i : Int) + step := by
            rw [Int.natCast_add, Int.mul_add]; simp
          rw [this]; congr 2; omega
      · intro i hi
        cases i with
        | zero => simp; exact hc
        | succ j =>
          have := hall j (by omega)
          have e : step * ((j + 1 : Nat) : Int) = step * (j : Int) + step := by
            rw [Int.natCast_add, Int.mul_add]; simp
          rw [e]; omega
      · intro hlt
        have := hnext (by omega)
        have e : step * ((n + 1 : Nat) : Int) = step * (n : Int) + step := by
          rw [Int.natCast_add, Int.mul_add]; simp
        rw [e]; omega
    · refine ⟨0, by omega, ?_, by intro i hi; omega, ?_⟩
      · unfold iprLoop
        simp only [if_true, hc, not_false_eq_true]; rfl
      · intro _; simp; omega

/-! ### `range` and `slice.indices` stay inside the list -/

/-- every element of `range(start, stop, step)` lies between `start` and `stop` (half-open on the
    `stop` side) -/
theorem mem_pyRange (start stop step : Int) (v : Int) (h : v ∈ Py.pyRange start stop step) :
    (0 < step ∧ start ≤ v ∧ v < stop) ∨ (step < 0 ∧ v ≤ start ∧ stop < v) := by
  unfold Py.pyRange at h
  by_cases hp : step > 0
  · simp only [hp, if_true] at h
    by_cases hs : start ≥ stop
    · simp [hs] at h
    · simp only [hs, if_false, List.mem_map, List.mem_range] at h
      obtain ⟨i, hi, rfl⟩ := h
      left
      have hi' : ((i : Int) + 1) ≤ (stop - start + step - 1) / step := by omega
      have := (Int.le_ediv_iff_mul_le hp).1 hi'
      rw [Int.add_mul, Int.mul_comm] at this
      have hnn : 0 ≤ step * (i : Int) := Int.mul_nonneg (by omega) (by omega)
      refine ⟨hp, by omega, by omega⟩
  · have hp' : ¬ step > 0 := hp
    simp only [hp', if_false] at h
    by_cases hn : step < 0
    · simp only [hn, if_true] at h
      by_cases hs : start ≤ stop
      · simp [hs] at h
      · simp only [hs, if_false, List.mem_map, List.mem_range] at h
        obtain ⟨i, hi, rfl⟩ := h
        right
        have hpos : 0 < -step := by omega
        have hi' : ((i : Int) + 1) ≤ (start - stop + -step - 1) / -step := by omega
        have := (Int.le_ediv_iff_mul_le hpos).1 hi'
        rw [Int.add_mul, Int.mul_comm, Int.neg_mul] at this
        have hnn : 0 ≤ (-step) * (i : Int) := Int.mul_nonneg (by omega) (by omega)
        rw [Int.neg_mul] at hnn
        refine ⟨hn, by omega, by omega⟩
    · simp [hn] at h

/-- the positions `range(*slice(a, b, c).indices(n))` are valid positions of a list of length `n` -/
theorem sliceIdx_in_range (a b c : Option Int) (n : Nat) (s e st : Int)
    (h : Py.sliceIndices a b c n = some (s, e, st)) :
    ∀ v ∈ Py.pyRange s e st, 0 ≤ v ∧ v < (n : Int) := by
  intro v hv
  have hm := mem_pyRange s e st v hv
  unfold Py.sliceIndices at h
  simp only at h
  split at h
  · cases h
  · rename_i hst0
    simp only [Option.some.injEq, Prod.mk.injEq] at h
    obtain ⟨hs, he, hst⟩ := h
    subst hst
    rcases hm with ⟨hpos, h1, h2⟩ | ⟨hneg, h1, h2⟩
    · have hnlt : ¬ (c.getD 1 < 0) := by omega
      simp only [hnlt, if_false] at hs he
      constructor
      · -- 0 ≤ s ≤ v
        have : 0 ≤ s := by
          rw [← hs]; cases a with
          | none => simp
          | some x => simp only; split <;> split <;> omega
        omega
      · have : e ≤ (n : Int) := by
          rw [← he]; cases b with
          | none => simp
          | some x => simp only; split <;> split <;> omega
        omega
    · simp only [hneg, if_true] at hs he
      constructor
      · have : -1 ≤ e := by
          rw [← he]; cases b with
          | none => simp
          | some x => simp only; split <;> split <;> omega
        omega
      · have : s ≤ (n : Int) - 1 := by
          rw [← hs]; cases a with
          | none => simp
          | some x => simp only; split <;> split <;> omega
        omega

theorem mapM_ok {α β : Type} (f : α → R β) (g : α → β) :
    ∀ l : List α, (∀ a ∈ l, f a = .ok (g a)) → l.mapM f = .ok (l.map g) := by
  intro l
  induction l with
  | nil => intro _; rfl
  | cons a t ih =>
    intro h
    rw [List.mapM_cons, h a (by simp), ih (fun b hb => h b (by simp [hb]))]
    rfl

theorem filterMap_all_some {α β : Type} (f : α → Option β) (g : α → β) :
    ∀ l : List α, (∀ a ∈ l, f a = some (g a)) → l.filterMap f = l.map g := by
  intro l
  induction l with
  | nil => intro _; rfl
  | cons a t ih =>
    intro h
    rw [List.filterMap_cons, h a (by simp), ih (fun b hb => h b (by simp [hb]))]
    rfl

/-! ### what the spec-level slice means in terms of `drop` / `take` / `reverse` -/

theorem fm_drop_take {α : Type} (l : List α) (a : Nat) : ∀ cnt : Nat,
    ((List.range cnt).map (fun (i : Nat) => (a : Int) + 1 * (i : Int))).filterMap
      (fun i => if 0 ≤ i then l[i.toNat]? else none) = (l.drop a).take cnt := by
  intro cnt
  induction cnt with
  | zero => simp
  | succ c ih =>
    rw [List.range_succ, List.map_append, List.filterMap_append, ih, List.take_add_one, List.getElem?_drop]
    congr 1
    have h0 : (0 : Int) ≤ (a : Int) + 1 * (c : Int) := by omega
    have e : ((a : Int) + 1 * (c : Int)).toNat = a + c := by omega
    simp only [List.map_cons, List.map_nil, List.filterMap_cons, h0, if_true, e, List.filterMap_nil]
    cases l[a + c]? <;> rfl


theorem filterMap_congr' {α β : Type} (f g : α → Option β) :
    ∀ l : List α, (∀ a ∈ l, f a = g a) → l.filterMap f = l.filterMap g := by
  intro l
  induction l with
  | nil => intro _; rfl
  | cons a t ih =>
    intro h
    rw [List.filterMap_cons, List.filterMap_cons, h a (by simp), ih (fun b hb => h b (by simp [hb]))]


theorem fm_reverse {α : Type} : ∀ l : List α,
    ((List.range l.length).map (fun (i : Nat) => (l.length : Int) - 1 + (-1) * (i : Int))).filterMap
      (fun i => if 0 ≤ i then l[i.toNat]? else none) = l.reverse := by
  intro l
  induction l with
  | nil => rfl
  | cons x t ih =>
    rw [List.length_cons, List.range_succ, List.map_append, List.filterMap_append, List.reverse_cons]
    congr 1
    · rw [← ih, List.filterMap_map, List.filterMap_map]
      apply filterMap_congr'
      intro i hi
      have hi' : i < t.length := List.mem_range.1 hi
      simp only [Function.comp]
      have h0 : (0 : Int) ≤ ((t.length + 1 : Nat) : Int) - 1 + (-1) * (i : Int) := by omega
      have h1 : (0 : Int) ≤ (t.length : Int) - 1 + (-1) * (i : Int) := by omega
      simp only [h0, h1, if_true]
      have e : (((t.length + 1 : Nat) : Int) - 1 + (-1) * (i : Int)).toNat = ((t.length : Int) - 1 + (-1) * (i : Int)).toNat + 1 := by omega
      rw [e, List.getElem?_cons_succ]
    · have e : ((t.length + 1 : Nat) : Int) - 1 + (-1) * (t.length : Int) = 0 := by omega
      simp only [List.map_cons, List.map_nil, e, List.filterMap_cons, List.filterMap_nil]
      rfl

end NV.ListLike
