/-
Lemmas/IPSetL11.lean — histories: abstract (set-theoretic) meaning of every operation, the
step relation, and the every-reachable-state theorem (C06/C07).
-/
import NetaddrVerif.Lemmas.IPSetL10b
import NetaddrVerif.Lemmas.IPSetDiff5
namespace NV.IPSet
open NV NV.Blk

/-- abstract state of a history: for every set index, the (version, address) pairs it holds -/
abbrev Abs := Nat → Nat → Nat → Prop

def Abs.upd (σ : Abs) (i : Nat) (S : Nat → Nat → Prop) : Abs := fun j => if j = i then S else σ j

/-- plain set theory for the binary operators -/
def combine : BinOp → (Nat → Nat → Prop) → (Nat → Nat → Prop) → (Nat → Nat → Prop)
  | .or, A, B => fun u a => A u a ∨ B u a
  | .and, A, B => fun u a => A u a ∧ B u a
  | .sub, A, B => fun u a => A u a ∧ ¬ B u a
  | .xor, A, B => fun u a => (A u a ∧ ¬ B u a) ∨ (B u a ∧ ¬ A u a)

/-- what each operation means on the abstract sets.  `pop` removes the block the
    implementation returned when it is stored (the choice itself is left open). -/
def specStep (sets : List St) (σ : Abs) : Op → Abs
  | .newNone i => σ.upd i (fun _ _ => False)
  | .newNet i n => σ.upd i (argDen (.net n))
  | .newRng i r => σ.upd i (argDen (.rng r))
  | .newSet i j => σ.upd i (σ j)
  | .newList i xs => σ.upd i (argsDen xs)
  | .add i x => σ.upd i (fun u a => σ i u a ∨ argDen x u a)
  | .rem i x => σ.upd i (fun u a => σ i u a ∧ ¬ argDen x u a)
  | .updSet i j => σ.upd i (fun u a => σ i u a ∨ σ j u a)
  | .updArg i x => σ.upd i (fun u a => σ i u a ∨ argDen x u a)
  | .updList i xs => σ.upd i (fun u a => σ i u a ∨ argsDen xs u a)
  | .clear i => σ.upd i (fun _ _ => False)
  | .pop _ none => σ
  | .pop i (some b) =>
    if dMem (getSet sets i) b then σ.upd i (fun u a => σ i u a ∧ ¬ argDen (.net b) u a) else σ
  | .compact _ => σ
  | .copy j i => σ.upd j (σ i)
  | .bin k i j o => σ.upd k (combine o (σ i) (σ j))

theorem getSet_setSet (sets : List St) (i j : Nat) (s : St) :
    getSet (setSet sets i s) j = if j = i then s else getSet sets j := by
  unfold getSet setSet
  simp only [List.getD_eq_getElem?_getD]
  by_cases hle : sets.length ≤ i
  · simp only [hle, if_true]
    have hlen : i < (sets ++ List.replicate (i + 1 - sets.length) ([] : St)).length := by
      simp [List.length_append, List.length_replicate]; omega
    by_cases e : j = i
    · subst e
      simp only [if_true]
      rw [List.getElem?_set_self hlen]; rfl
    · simp only [e, if_false]
      rw [List.getElem?_set_ne (fun h => e h.symm)]
      by_cases hj : j < sets.length
      · rw [List.getElem?_append_left hj]
      · rw [List.getElem?_append_right (by omega), List.getElem?_replicate]
        have h1 : sets[j]? = none := List.getElem?_eq_none (by omega)
        rw [h1]
        split <;> rfl
  · simp only [hle, if_false]
    by_cases e : j = i
    · subst e
      simp only [if_true]
      rw [List.getElem?_set_self (by omega)]; rfl
    · simp only [e, if_false]
      rw [List.getElem?_set_ne (fun h => e h.symm)]

/-- the argument conditions of the operations of a history: every argument well-formed
    (all four binary operators `|`, `&`, `-`, `^` are covered without condition) -/
def Op.OK : Op → Prop
  | .newNet _ n => n.WF
  | .newRng _ r => ArgOK (.rng r)
  | .newList _ xs => ∀ x ∈ xs, ArgOK x
  | .add _ x => ArgOK x
  | .updArg _ x => ArgOK x
  | .updList _ xs => ∀ x ∈ xs, ArgOK x
  | .pop _ (some b) => Good b
  | .rem _ x => ArgOK x
  | _ => True

/-- the concrete sets are canonical and denote the abstract sets -/
def Rel (sets : List St) (σ : Abs) : Prop :=
  ∀ i, Inv (getSet sets i) ∧ ∀ u a, denS (getSet sets i) u a ↔ σ i u a

theorem rel_upd {sets : List St} {σ : Abs} (h : Rel sets σ) (i : Nat) (s : St) (S : Nat → Nat → Prop)
    (hi : Inv s) (hd : ∀ u a, denS s u a ↔ S u a) : Rel (setSet sets i s) (σ.upd i S) := by
  intro j
  rw [getSet_setSet]
  unfold Abs.upd
  by_cases e : j = i
  · simp only [e, if_true]; exact ⟨hi, hd⟩
  · simp only [e, if_false]; exact h j

/-- one step keeps "canonical and denoting the abstract sets" -/
theorem step_rel (sets : List St) (σ : Abs) (op : Op) (h : Rel sets σ) (hop : op.OK) :
    Rel (stepOp sets op).1 (specStep sets σ op) := by
  cases op with
  | newNone i => exact rel_upd h i [] _ inv_nil (fun u a => by simp [denS_nil])
  | newNet i n => exact rel_upd h i _ _ (newOfNet_spec n hop).1 (newOfNet_spec n hop).2
  | newRng i r => exact rel_upd h i _ _ (newOfRange_spec r hop).1 (newOfRange_spec r hop).2
  | newSet i j =>
    have := newOfSet_spec (getSet sets j) (h j).1
    exact rel_upd h i _ _ this.1 (fun u a => by rw [denS_of_mem _ _ this.2]; exact (h j).2 u a)
  | newList i xs => exact rel_upd h i _ _ (newOfList_spec xs hop).1 (newOfList_spec xs hop).2
  | add i x =>
    have := add_spec (getSet sets i) (h i).1 x hop
    exact rel_upd h i _ _ this.1 (fun u a => by rw [this.2 u a, (h i).2 u a])
  | rem i x =>
    have := remove_spec (getSet sets i) (h i).1 x hop
    exact rel_upd h i _ _ this.1 (fun u a => by rw [this.2 u a, (h i).2 u a])
  | updSet i j =>
    have := updateSet_spec (getSet sets i) (getSet sets j) (fun n hn => ((h i).1.good n hn).1)
      (fun n hn => ((h j).1.good n hn).1)
    exact rel_upd h i _ _ this.1 (fun u a => by rw [this.2 u a, (h i).2 u a, (h j).2 u a])
  | updArg i x =>
    have := add_spec (getSet sets i) (h i).1 x hop
    exact rel_upd h i _ _ this.1 (fun u a => by rw [this.2 u a, (h i).2 u a])
  | updList i xs =>
    have := updateList_spec (getSet sets i) (h i).1.good xs hop
    exact rel_upd h i _ _ this.1 (fun u a => by rw [this.2 u a, (h i).2 u a])
  | clear i => exact rel_upd h i [] _ inv_nil (fun u a => by simp [denS_nil])
  | pop i b =>
    cases b with
    | none => exact h
    | some b =>
      have hbg : Good b := hop
      by_cases hm : dMem (getSet sets i) b = true
      · have hb := (dMem_good _ (h i).1.good b hbg).1 hm
        obtain ⟨s', h1, h2, h3⟩ := pop_spec (getSet sets i) (h i).1 b hb
        have e1 : (stepOp sets (.pop i (some b))).1 = setSet sets i s' := by simp [stepOp, h1]
        have e2 : specStep sets σ (.pop i (some b)) =
            σ.upd i (fun u a => σ i u a ∧ ¬ argDen (.net b) u a) := by simp [specStep, hm]
        rw [e1, e2]
        refine rel_upd h i _ _ h2 (fun u a => ?_)
        rw [h3 u a, (h i).2 u a]
        unfold argDen
        constructor
        · rintro ⟨k1, k2⟩; exact ⟨k1, fun ⟨e, k3⟩ => k2 ⟨e.symm, k3⟩⟩
        · rintro ⟨k1, k2⟩; exact ⟨k1, fun ⟨e, k3⟩ => k2 ⟨e.symm, k3⟩⟩
      · have hm' : dMem (getSet sets i) b = false := by simpa using hm
        have e1 : (stepOp sets (.pop i (some b))).1 = sets := by simp [stepOp, pop, hm']
        have e2 : specStep sets σ (.pop i (some b)) = σ := by simp [specStep, hm']
        rw [e1, e2]; exact h
  | compact i =>
    have := compact_spec (getSet sets i) (fun n hn => ((h i).1.good n hn).1)
    have hr := rel_upd h i _ (σ i) this.1 (fun u a => by rw [this.2 u a, (h i).2 u a])
    have e : σ.upd i (σ i) = σ := by
      funext j; unfold Abs.upd; split
      · rename_i e; rw [e]
      · rfl
    rw [e] at hr; exact hr
  | copy j i =>
    have := copy_spec (getSet sets i) (h i).1
    exact rel_upd h j _ _ this.1 (fun u a => by rw [denS_of_mem _ _ this.2]; exact (h i).2 u a)
  | bin k i j o =>
    cases o with
    | or =>
      have := union_spec (getSet sets i) (getSet sets j) (h i).1 (h j).1
      exact rel_upd h k _ _ this.1 (fun u a => by
        show denS (union _ _) u a ↔ _
        rw [this.2 u a, (h i).2 u a, (h j).2 u a]; rfl)
    | and =>
      have := intersection_spec (getSet sets i) (getSet sets j) (h i).1 (h j).1
      exact rel_upd h k _ _ this.1 (fun u a => by
        show denS (intersection _ _) u a ↔ _
        rw [this.2 u a, (h i).2 u a, (h j).2 u a]; rfl)
    | sub =>
      have := difference_spec (getSet sets i) (getSet sets j) (h i).1 (h j).1
      exact rel_upd h k _ _ this.1 (fun u a => by
        show denS (difference _ _) u a ↔ _
        rw [this.2 u a, (h i).2 u a, (h j).2 u a]; rfl)
    | xor =>
      have := symmetricDifference_spec (getSet sets i) (getSet sets j) (h i).1 (h j).1
      exact rel_upd h k _ _ this.1 (fun u a => by
        show denS (symmetricDifference _ _) u a ↔ _
        rw [this.2 u a, (h i).2 u a, (h j).2 u a]; rfl)

/-- abstract run of a history (alongside the concrete one, whose `pop` outcomes it reads) -/
def runBoth (ops : List Op) : List St × Abs :=
  ops.foldl (fun p op => ((stepOp p.1 op).1, specStep p.1 p.2 op)) ([], fun _ _ _ => False)

theorem runBoth_fst (ops : List Op) : (runBoth ops).1 = runOps ops := by
  unfold runBoth runOps
  suffices h : ∀ (p : List St × Abs), (ops.foldl (fun p op => ((stepOp p.1 op).1, specStep p.1 p.2 op)) p).1 =
      ops.foldl (fun sets op => (stepOp sets op).1) p.1 from h _
  induction ops with
  | nil => intro p; rfl
  | cons o os ih => intro p; simp only [List.foldl_cons]; exact ih _

/-- Every reachable state: after ANY history of the covered operations, every live set is
    canonical and denotes exactly what plain set theory says the history denotes. -/
theorem history_rel (ops : List Op) (hok : ∀ op ∈ ops, op.OK) : Rel (runBoth ops).1 (runBoth ops).2 := by
  unfold runBoth
  suffices h : ∀ (p : List St × Abs), Rel p.1 p.2 →
      Rel (ops.foldl (fun p op => ((stepOp p.1 op).1, specStep p.1 p.2 op)) p).1
          (ops.foldl (fun p op => ((stepOp p.1 op).1, specStep p.1 p.2 op)) p).2 by
    apply h
    intro i
    have : getSet ([] : List St) i = [] := by simp [getSet]
    rw [this]
    exact ⟨inv_nil, fun u a => by simp [denS_nil]⟩
  induction ops with
  | nil => intro p hp; exact hp
  | cons o os ih =>
    intro p hp
    simp only [List.foldl_cons]
    exact ih (fun op h => hok op (List.mem_cons_of_mem _ h)) _
      (step_rel p.1 p.2 o hp (hok o (List.mem_cons_self ..)))

end NV.IPSet
