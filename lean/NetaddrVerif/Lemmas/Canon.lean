
namespace NV

-- Prototype: canonical CIDR lists are unique (core Lean only)
structure Blk where
  base : Nat
  k : Nat
deriving DecidableEq, Repr

namespace Blk
def aligned (b : Blk) : Prop := b.base % 2 ^ b.k = 0
def mem (b : Blk) (a : Nat) : Prop := b.base ≤ a ∧ a < b.base + 2 ^ b.k
def sub (b c : Blk) : Prop := ∀ a, b.mem a → c.mem a
def disj (b c : Blk) : Prop := ∀ a, ¬ (b.mem a ∧ c.mem a)
def parent (b : Blk) : Blk := ⟨b.base / 2 ^ (b.k + 1) * 2 ^ (b.k + 1), b.k + 1⟩
/-- `b` is the lower half and `c` the upper half of one aligned block. -/
def sib (b c : Blk) : Prop := b.k = c.k ∧ b.base % 2 ^ (b.k + 1) = 0 ∧ c.base = b.base + 2 ^ b.k

theorem pow_pos' (k : Nat) : 0 < 2 ^ k := Nat.pos_of_ne_zero (by simp)

theorem mem_base (b : Blk) : b.mem b.base := ⟨Nat.le_refl _, by have := pow_pos' b.k; omega⟩

theorem mem_iff_div (b : Blk) (h : b.aligned) (a : Nat) :
    b.mem a ↔ a / 2 ^ b.k = b.base / 2 ^ b.k := by
  unfold mem aligned at *
  have hp : 0 < 2 ^ b.k := pow_pos' _
  generalize 2 ^ b.k = B at *
  have hb : b.base = B * (b.base / B) := by
    have := Nat.div_add_mod b.base B; omega
  generalize b.base / B = q at *
  constructor
  · rintro ⟨h1, h2⟩
    rw [hb] at h1 h2
    apply Nat.div_eq_of_lt_le
    · rw [Nat.mul_comm]; exact h1
    · rw [Nat.mul_comm, Nat.mul_succ]; omega
  · intro h1
    have := Nat.div_add_mod a B
    have := Nat.mod_lt a hp
    rw [h1] at *
    omega

theorem pow_split {i j : Nat} (h : i ≤ j) : 2 ^ j = 2 ^ i * 2 ^ (j - i) := by
  rw [← Nat.pow_add]; congr 1; omega

/-- two aligned blocks sharing a point: the smaller is inside the larger -/
theorem sub_of_share (b c : Blk) (hb : b.aligned) (hc : c.aligned) (hk : b.k ≤ c.k)
    (x : Nat) (hx : b.mem x) (hcx : c.mem x) : b.sub c := by
  intro a ha
  rw [mem_iff_div c hc] at hcx ⊢
  rw [mem_iff_div b hb] at hx ha
  rw [← hcx, pow_split hk, ← Nat.div_div_eq_div_mul, ← Nat.div_div_eq_div_mul, ha, hx]

/-- aligned blocks of equal size sharing a point are equal -/
theorem eq_of_share (b c : Blk) (hb : b.aligned) (hc : c.aligned) (hk : b.k = c.k)
    (x : Nat) (hx : b.mem x) (hcx : c.mem x) : b = c := by
  have h1 := (mem_iff_div b hb x).1 hx
  have h2 := (mem_iff_div c hc x).1 hcx
  rw [← hk] at h2
  have hbb : b.base = 2 ^ b.k * (b.base / 2 ^ b.k) := by
    have := Nat.div_add_mod b.base (2 ^ b.k); unfold aligned at hb; omega
  have hcc : c.base = 2 ^ b.k * (c.base / 2 ^ b.k) := by
    have := Nat.div_add_mod c.base (2 ^ b.k); unfold aligned at hc; rw [← hk] at hc; omega
  have hbase : b.base = c.base := by rw [hbb, hcc, ← h1, ← h2]
  obtain ⟨bb, bk⟩ := b
  obtain ⟨cb, ck⟩ := c
  simp only at hbase hk
  subst hbase; subst hk; rfl

theorem parent_aligned (b : Blk) : b.parent.aligned := by
  simp [parent, aligned]

theorem sub_parent (b : Blk) (hb : b.aligned) : b.sub b.parent := by
  intro a ha
  rw [mem_iff_div _ (parent_aligned b)]
  rw [mem_iff_div b hb] at ha
  simp only [parent]
  have hp := pow_pos' (b.k + 1)
  rw [Nat.mul_div_cancel _ hp]
  have e : 2 ^ (b.k + 1) = 2 ^ b.k * 2 := by rw [Nat.pow_succ]
  rw [e, ← Nat.div_div_eq_div_mul, ← Nat.div_div_eq_div_mul, ha]
end Blk

open Blk

def den (l : List Blk) (a : Nat) : Prop := ∃ b ∈ l, b.mem a

structure Canon (l : List Blk) : Prop where
  al : ∀ b ∈ l, b.aligned
  sorted : l.Pairwise (fun b c => b.base < c.base)
  dj : ∀ b ∈ l, ∀ c ∈ l, b ≠ c → b.disj c
  ns : ∀ b ∈ l, ∀ c ∈ l, ¬ b.sib c

/-- the two halves of an aligned block of size 2^(k+1) -/
def lo (q : Blk) : Blk := ⟨q.base, q.k - 1⟩
def hi (q : Blk) : Blk := ⟨q.base + 2 ^ (q.k - 1), q.k - 1⟩

theorem halves (q : Blk) (hq : q.aligned) (hk : 0 < q.k) :
    (lo q).aligned ∧ (hi q).aligned ∧ (lo q).sib (hi q) ∧
    (∀ a, q.mem a ↔ (lo q).mem a ∨ (hi q).mem a) := by
  obtain ⟨b, k⟩ := q
  cases k with
  | zero => simp at hk
  | succ k =>
    have e : 2 ^ (k + 1) = 2 ^ k * 2 := by rw [Nat.pow_succ]
    have hp := pow_pos' k
    have hq' : b % (2 ^ k * 2) = 0 := by simpa [aligned, e] using hq
    have hb : b % 2 ^ k = 0 := by
      have := Nat.mod_mul_right_mod b (2 ^ k) 2
      rw [hq'] at this; simpa using this.symm
    refine ⟨?_, ?_, ?_, ?_⟩
    · show b % 2 ^ (k + 1 - 1) = 0
      simpa using hb
    · show (b + 2 ^ (k + 1 - 1)) % 2 ^ (k + 1 - 1) = 0
      simp only [Nat.add_sub_cancel]
      rw [Nat.add_mod, hb]; simp
    · refine ⟨rfl, ?_, ?_⟩
      · show b % 2 ^ (k + 1 - 1 + 1) = 0
        simp only [Nat.add_sub_cancel]; rw [e]; exact hq'
      · rfl
    · intro a
      show (b ≤ a ∧ a < b + 2 ^ (k + 1)) ↔
        (b ≤ a ∧ a < b + 2 ^ (k + 1 - 1)) ∨ (b + 2 ^ (k + 1 - 1) ≤ a ∧ a < b + 2 ^ (k + 1 - 1) + 2 ^ (k + 1 - 1))
      simp only [Nat.add_sub_cancel]
      rw [e]; omega

/-- Lemma A: an aligned block covered by strictly smaller aligned blocks of `l` forces a sibling pair -/
theorem covered_strict_imp_sib (l : List Blk) (hal : ∀ b ∈ l, b.aligned) :
    ∀ (k : Nat) (q : Blk), q.k = k → q.aligned →
      (∀ a, q.mem a → ∃ b ∈ l, b.mem a ∧ b.k < q.k) → ∃ b ∈ l, ∃ c ∈ l, b.sib c := by
  intro k
  induction k with
  | zero =>
    intro q hk _ hc
    obtain ⟨b, _, _, hlt⟩ := hc q.base (mem_base q)
    omega
  | succ k ih =>
    intro q hk hq hc
    have hkpos : 0 < q.k := by omega
    obtain ⟨hla, hha, hsib, hsplit⟩ := halves q hq hkpos
    have hlk : (lo q).k = k := by simp [lo]; omega
    have hhk : (hi q).k = k := by simp [hi]; omega
    -- a half that is not in l is strictly covered
    have half : ∀ h : Blk, h.k = k → h.aligned → (∀ a, h.mem a → q.mem a) → h ∉ l →
        ∃ b ∈ l, ∃ c ∈ l, b.sib c := by
      intro h hhk' hha' hsub hnot
      apply ih h hhk' hha'
      intro a ha
      obtain ⟨b, hbl, hba, hblt⟩ := hc a (hsub a ha)
      refine ⟨b, hbl, hba, ?_⟩
      rcases Nat.lt_or_ge b.k h.k with hlt | hge
      · exact hlt
      · exfalso
        have hbk : b.k = h.k := by omega
        have := eq_of_share b h (hal b hbl) hha' hbk a hba ha
        exact hnot (this ▸ hbl)
    by_cases h1 : lo q ∈ l
    · by_cases h2 : hi q ∈ l
      · exact ⟨lo q, h1, hi q, h2, hsib⟩
      · exact half (hi q) hhk hha (fun a ha => (hsplit a).2 (Or.inr ha)) h2
    · exact half (lo q) hlk hla (fun a ha => (hsplit a).2 (Or.inl ha)) h1

/-- `b` is a maximal aligned block inside `S` -/
def Maximal (S : Nat → Prop) (b : Blk) : Prop :=
  b.aligned ∧ (∀ a, b.mem a → S a) ∧ ¬ (∀ a, b.parent.mem a → S a)

theorem sib_parent_cover (b : Blk) (hb : b.aligned) :
    ∃ s : Blk, s.aligned ∧ s.k = b.k ∧ (b.sib s ∨ s.sib b) ∧ (∀ a, s.mem a → b.parent.mem a) := by
  have hpa := parent_aligned b
  have hpk : 0 < b.parent.k := by simp [parent]
  obtain ⟨hla, hha, hsib, hsplit⟩ := halves b.parent hpa hpk
  have hlk : (lo b.parent).k = b.k := by simp [lo, parent]
  have hhk : (hi b.parent).k = b.k := by simp [hi, parent]
  have hbp := sub_parent b hb b.base (mem_base b)
  rcases (hsplit b.base).1 hbp with h | h
  · have e : lo b.parent = b := eq_of_share _ _ hla hb hlk b.base h (mem_base b)
    rw [e] at hsib
    exact ⟨hi b.parent, hha, hhk, Or.inl hsib, fun a ha => (hsplit a).2 (Or.inr ha)⟩
  · have e : hi b.parent = b := eq_of_share _ _ hha hb hhk b.base h (mem_base b)
    rw [e] at hsib
    exact ⟨lo b.parent, hla, hlk, Or.inr hsib, fun a ha => (hsplit a).2 (Or.inl ha)⟩

theorem canon_mem_maximal (l : List Blk) (hc : Canon l) (b : Blk) (hb : b ∈ l) :
    Maximal (den l) b := by
  refine ⟨hc.al b hb, fun a ha => ⟨b, hb, ha⟩, ?_⟩
  intro hcov
  obtain ⟨s, hsa, hsk, hsib, hsp⟩ := sib_parent_cover b (hc.al b hb)
  have hns : s ∉ l := by
    intro hs
    rcases hsib with h | h
    · exact hc.ns b hb s hs h
    · exact hc.ns s hs b hb h
  have : ∃ x ∈ l, ∃ y ∈ l, x.sib y := by
    apply covered_strict_imp_sib l hc.al s.k s rfl hsa
    intro a ha
    obtain ⟨c, hcl, hca⟩ := hcov a (hsp a ha)
    refine ⟨c, hcl, hca, ?_⟩
    rcases Nat.lt_trichotomy c.k s.k with hlt | heq | hgt
    · exact hlt
    · exfalso
      exact hns ((eq_of_share c s (hc.al c hcl) hsa heq a hca ha) ▸ hcl)
    · exfalso
      -- c is at least as large as the parent, so it contains b
      have hpk : b.parent.k ≤ c.k := by simp [parent]; omega
      have hsub := sub_of_share b.parent c (parent_aligned b) (hc.al c hcl) hpk a (hsp a ha) hca
      have hbc : b ≠ c := by intro e; rw [e] at hsk; omega
      exact hc.dj b hb c hcl hbc b.base ⟨mem_base b, hsub _ (sub_parent b (hc.al b hb) _ (mem_base b))⟩
  obtain ⟨x, hx, y, hy, hxy⟩ := this
  exact hc.ns x hx y hy hxy

theorem maximal_mem_canon (l : List Blk) (hc : Canon l) (b : Blk) (hm : Maximal (den l) b) :
    b ∈ l := by
  obtain ⟨hba, hsub, hnp⟩ := hm
  -- any member of l meeting b that is larger than b contains the parent: impossible
  have big : ∀ c ∈ l, ∀ a, b.mem a → c.mem a → ¬ b.k < c.k := by
    intro c hcl a hba' hca hlt
    apply hnp
    intro x hx
    have hpk : b.parent.k ≤ c.k := by simp [parent]; omega
    exact ⟨c, hcl, sub_of_share b.parent c (parent_aligned b) (hc.al c hcl) hpk a
      (sub_parent b hba a hba') hca x hx⟩
  obtain ⟨c, hcl, hcb⟩ := hsub b.base (mem_base b)
  rcases Nat.lt_trichotomy c.k b.k with hlt | heq | hgt
  · exfalso
    have : ∃ x ∈ l, ∃ y ∈ l, x.sib y := by
      apply covered_strict_imp_sib l hc.al b.k b rfl hba
      intro a ha
      obtain ⟨d, hdl, hda⟩ := hsub a ha
      refine ⟨d, hdl, hda, ?_⟩
      rcases Nat.lt_trichotomy d.k b.k with h | h | h
      · exact h
      · exfalso
        have hdb : d = b := eq_of_share d b (hc.al d hdl) hba h a hda ha
        have hcd : c ≠ d := by intro e; rw [e, hdb] at hlt; omega
        exact hc.dj c hcl d hdl hcd b.base ⟨hcb, hdb ▸ mem_base b⟩
      · exact absurd h (big d hdl a ha hda)
    obtain ⟨x, hx, y, hy, hxy⟩ := this
    exact hc.ns x hx y hy hxy
  · exact (eq_of_share c b (hc.al c hcl) hba heq b.base hcb (mem_base b)) ▸ hcl
  · exact absurd hgt (big c hcl b.base (mem_base b) hcb)

theorem sorted_ext : ∀ (l₁ l₂ : List Blk),
    l₁.Pairwise (fun b c => b.base < c.base) → l₂.Pairwise (fun b c => b.base < c.base) →
    (∀ b, b ∈ l₁ ↔ b ∈ l₂) → l₁ = l₂
  | [], [], _, _, _ => rfl
  | [], y :: ys, _, _, h => by have := (h y).2 (by simp); simp at this
  | x :: xs, [], _, _, h => by have := (h x).1 (by simp); simp at this
  | x :: xs, y :: ys, h1, h2, h => by
    have hx := List.pairwise_cons.1 h1
    have hy := List.pairwise_cons.1 h2
    have hxy : x = y := by
      have a1 : x ∈ y :: ys := (h x).1 (by simp)
      have a2 : y ∈ x :: xs := (h y).2 (by simp)
      rcases List.mem_cons.1 a1 with e | e
      · exact e
      · rcases List.mem_cons.1 a2 with e' | e'
        · exact e'.symm
        · have := hx.1 y e'; have := hy.1 x e; omega
    subst hxy
    congr 1
    apply sorted_ext xs ys hx.2 hy.2
    intro b
    constructor
    · intro hb
      rcases List.mem_cons.1 ((h b).1 (List.mem_cons_of_mem _ hb)) with e | e
      · have := hx.1 b hb; rw [e] at this; omega
      · exact e
    · intro hb
      rcases List.mem_cons.1 ((h b).2 (List.mem_cons_of_mem _ hb)) with e | e
      · have := hy.1 b hb; rw [e] at this; omega
      · exact e

theorem canon_unique (l₁ l₂ : List Blk) (h1 : Canon l₁) (h2 : Canon l₂)
    (hd : ∀ a, den l₁ a ↔ den l₂ a) : l₁ = l₂ := by
  have hS : den l₁ = den l₂ := funext fun a => propext (hd a)
  apply sorted_ext l₁ l₂ h1.sorted h2.sorted
  intro b
  constructor
  · intro hb
    exact maximal_mem_canon l₂ h2 b (hS ▸ canon_mem_maximal l₁ h1 b hb)
  · intro hb
    exact maximal_mem_canon l₁ h1 b (hS ▸ canon_mem_maximal l₂ h2 b hb)

end NV
