/-
Lemmas/C01LHex.lean — hexadecimal group numerals: `'%x'` / `'%.4x'` output is read back by
the group reader of the IPv6 parsers.  Core Lean only.
-/
import NetaddrVerif.Model.AddrParse
namespace NV.C01L
open NV NV.Text4 NV.Text6

theorem toDigits16_all (P : Char → Prop) (hP : ∀ d, d < 16 → P (Nat.digitChar d)) (n : Nat) :
    ∀ c ∈ Nat.toDigits 16 n, P c := by
  induction n using Nat.strongRecOn with
  | ind n ih =>
    rw [Nat.toDigits_eq_if (by decide)]
    by_cases h : n < 16
    · simp only [h, if_true, List.mem_singleton]
      intro c hc; subst hc; exact hP n h
    · simp only [h, if_false, List.mem_append, List.mem_singleton]
      intro c hc
      rcases hc with hc | hc
      · exact ih (n / 16) (Nat.div_lt_self (by omega) (by decide)) c hc
      · subst hc; exact hP _ (Nat.mod_lt _ (by decide))

theorem toDigits16_len (k : Nat) : ∀ n, n < 16 ^ (k + 1) → (Nat.toDigits 16 n).length ≤ k + 1 := by
  induction k with
  | zero =>
    intro n hn
    rw [Nat.toDigits_eq_if (by decide)]
    have : n < 16 := by simpa using hn
    simp [this]
  | succ k ih =>
    intro n hn
    rw [Nat.toDigits_eq_if (by decide)]
    by_cases h : n < 16
    · simp [h]
    · simp only [h, if_false, List.length_append, List.length_singleton]
      have : n / 16 < 16 ^ (k + 1) := by
        rw [Nat.div_lt_iff_lt_mul (by decide)]
        rw [Nat.pow_succ] at hn; exact hn
      have := ih (n / 16) this
      omega

theorem hexVal_digitChar : ∀ d, d < 16 → hexVal (Nat.digitChar d) = d := by decide

theorem ofBase_append (b : Nat) (s t : List Char) :
    ofBase b (s ++ t) = t.foldl (fun a c => a * b + hexVal c) (ofBase b s) := by
  simp [ofBase, List.foldl_append]

theorem ofBase16_toDigits (n : Nat) : ofBase 16 (Nat.toDigits 16 n) = n := by
  induction n using Nat.strongRecOn with
  | ind n ih =>
    rw [Nat.toDigits_eq_if (by decide)]
    by_cases h : n < 16
    · simp [h, ofBase, hexVal_digitChar n h]
    · simp only [h, if_false]
      rw [ofBase_append, ih (n / 16) (Nat.div_lt_self (by omega) (by decide))]
      simp only [List.foldl_cons, List.foldl_nil, hexVal_digitChar _ (Nat.mod_lt n (by decide : 16 > 0))]
      omega

theorem hex_ne_nil (n : Nat) : hex n ≠ [] := Nat.toDigits_ne_nil

theorem isHexC_digitChar : ∀ d, d < 16 → isHexC (Nat.digitChar d) = true := by decide
theorem ne_colon_digitChar : ∀ d, d < 16 → Nat.digitChar d ≠ ':' := by decide
theorem ne_dot_digitChar : ∀ d, d < 16 → Nat.digitChar d ≠ '.' := by decide
theorem ne_slash_digitChar : ∀ d, d < 16 → Nat.digitChar d ≠ '/' := by decide

theorem hex_all (n : Nat) : ∀ c ∈ hex n, isHexC c = true := toDigits16_all (isHexC · = true) isHexC_digitChar n
theorem colon_not_in_hex (n : Nat) : ':' ∉ hex n := fun h => toDigits16_all (· ≠ ':') ne_colon_digitChar n _ h rfl
theorem dot_not_in_hex (n : Nat) : '.' ∉ hex n := fun h => toDigits16_all (· ≠ '.') ne_dot_digitChar n _ h rfl
theorem slash_not_in_hex (n : Nat) : '/' ∉ hex n := fun h => toDigits16_all (· ≠ '/') ne_slash_digitChar n _ h rfl

theorem hex_len (n : Nat) (h : n < 65536) : 1 ≤ (hex n).length ∧ (hex n).length ≤ 4 := by
  refine ⟨?_, toDigits16_len 3 n (by simpa using h)⟩
  have := hex_ne_nil n
  cases hh : hex n with
  | nil => exact absurd hh this
  | cons a t => simp

/-- the group reader reads `'%x' % w` back -/
theorem hextet_hex (n : Nat) (h : n < 65536) : hextet (hex n) = some n := by
  obtain ⟨h1, h2⟩ := hex_len n h
  have h3 : (hex n).all isHexC = true := List.all_eq_true.mpr (hex_all n)
  unfold hextet
  simp only [h1, h2, h3, and_self, if_true]
  rw [show hex n = Nat.toDigits 16 n from rfl, ofBase16_toDigits]

theorem hex_eq_zero_iff (n : Nat) : (hex n == ['0']) = (n == 0) := by
  unfold hex
  rw [Nat.toDigits_eq_if (by decide)]
  by_cases h : n < 16
  · simp only [h, if_true]
    revert n; decide
  · simp only [h, if_false]
    have hne : Nat.toDigits 16 (n / 16) ≠ [] := Nat.toDigits_ne_nil
    have hn0 : (n == 0) = false := by simp; omega
    rw [hn0]
    cases hh : Nat.toDigits 16 (n / 16) with
    | nil => exact absurd hh hne
    | cons a t => simp

theorem ofBase_zeros (k : Nat) (t : List Char) : ofBase 16 (List.replicate k '0' ++ t) = ofBase 16 t := by
  induction k with
  | zero => simp
  | succ k ih =>
    rw [List.replicate_succ, List.cons_append]
    have : ofBase 16 ('0' :: (List.replicate k '0' ++ t)) = ofBase 16 (List.replicate k '0' ++ t) := by
      simp [ofBase, hexVal]
    rw [this, ih]

theorem hex4_len (n : Nat) (h : n < 65536) : (hex4 n).length = 4 := by
  obtain ⟨h1, h2⟩ := hex_len n h
  simp [hex4]; omega

theorem hex4_all (n : Nat) : ∀ c ∈ hex4 n, isHexC c = true := by
  intro c hc
  simp only [hex4, List.mem_append, List.mem_replicate] at hc
  rcases hc with ⟨_, hc⟩ | hc
  · subst hc; decide
  · exact hex_all n c hc

theorem hextet_hex4 (n : Nat) (h : n < 65536) : hextet (hex4 n) = some n := by
  have h3 : (hex4 n).all isHexC = true := List.all_eq_true.mpr (hex4_all n)
  unfold hextet
  simp only [hex4_len n h, h3]
  simp only [hex4, ofBase_zeros]
  rw [show hex n = Nat.toDigits 16 n from rfl, ofBase16_toDigits]
  simp

theorem hex4_ne_nil (n : Nat) (h : n < 65536) : hex4 n ≠ [] := by
  intro e; have := hex4_len n h; rw [e] at this; simp at this

theorem colon_not_in_hex4 (n : Nat) : ':' ∉ hex4 n := by
  intro hc
  simp only [hex4, List.mem_append, List.mem_replicate] at hc
  rcases hc with ⟨_, hc⟩ | hc
  · exact absurd hc (by decide)
  · exact colon_not_in_hex n hc

theorem dot_not_in_hex4 (n : Nat) : '.' ∉ hex4 n := by
  intro hc
  simp only [hex4, List.mem_append, List.mem_replicate] at hc
  rcases hc with ⟨_, hc⟩ | hc
  · exact absurd hc (by decide)
  · exact dot_not_in_hex n hc

theorem slash_not_in_hex4 (n : Nat) : '/' ∉ hex4 n := by
  intro hc
  simp only [hex4, List.mem_append, List.mem_replicate] at hc
  rcases hc with ⟨_, hc⟩ | hc
  · exact absurd hc (by decide)
  · exact slash_not_in_hex n hc

end NV.C01L
