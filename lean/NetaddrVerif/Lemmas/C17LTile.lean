/-
Lemmas/C17LTile.lean — from "canonical block list whose union is [lo, hi]" (the form in which
property C05 states the result of `iprange_to_cidrs`) to "consecutive blocks tiling [lo, hi]"
(the form the per-CIDR fallback of `iprange_to_globs` needs).
-/
import NetaddrVerif.Lemmas.Canon
import NetaddrVerif.Lemmas.PartStruct
import NetaddrVerif.Lemmas.NetworkL
namespace NV.C17
open NV

/-- consecutive closed intervals, ascending, that cover `[lo, hi]` exactly -/
def Tiles : List (Nat × Nat) → Nat → Nat → Prop
  | [], lo, hi => lo = hi + 1
  | (a, b) :: r, lo, hi => a = lo ∧ a ≤ b ∧ b ≤ hi ∧ Tiles r (b + 1) hi

/-- what the fallback path of `iprange_to_globs` needs from `iprange_to_cidrs` on two IPv4
    addresses: IPv4 blocks that tile `[lo, hi]` in ascending order -/
def CidrsTile (lo hi : Nat) : Prop :=
  (∀ b ∈ iprangeToCidrs 32 ⟨lo, 32⟩ ⟨hi, 32⟩, b.val < 2 ^ 32 ∧ b.plen ≤ 32) ∧
  Tiles ((iprangeToCidrs 32 ⟨lo, 32⟩ ⟨hi, 32⟩).map (fun b => (b.first 32, b.last 32))) lo hi

instance decTiles : ∀ (l : List (Nat × Nat)) (lo hi : Nat), Decidable (Tiles l lo hi)
  | [], lo, hi => inferInstanceAs (Decidable (lo = hi + 1))
  | (a, b) :: r, lo, hi =>
    have := decTiles r (b + 1) hi
    inferInstanceAs (Decidable (a = lo ∧ a ≤ b ∧ b ≤ hi ∧ Tiles r (b + 1) hi))

instance (lo hi : Nat) : Decidable (CidrsTile lo hi) := by unfold CidrsTile; infer_instance

-- a range that needs the fallback (two globs): the hypothesis holds on it
example : CidrsTile 255 257 := by decide +kernel
example : CidrsTile 5 1000 := by decide +kernel

/-- the statement of C05's theorem `NV.C05.iprange_to_cidrs_addr` (`RangeOK 32 … lo hi`), unfolded
    to the shared vocabulary of `Lemmas/Canon.lean`, `Partition.lean`, `PartStruct.lean`:
    canonical as blocks, union exactly `[lo, hi]`, no host bits, prefix ≤ 32 -/
def C05RangeOK (lo hi : Nat) : Prop :=
  Canon ((iprangeToCidrs 32 ⟨lo, 32⟩ ⟨hi, 32⟩).map (fun b => (⟨b.val, 32 - b.plen⟩ : Blk))) ∧
  (∀ a, lden 32 (iprangeToCidrs 32 ⟨lo, 32⟩ ⟨hi, 32⟩) a ↔ lo ≤ a ∧ a ≤ hi) ∧
  (∀ b ∈ iprangeToCidrs 32 ⟨lo, 32⟩ ⟨hi, 32⟩, alignedN 32 b ∧ b.plen ≤ 32)

theorem pfx_first_last (b : Pfx) (hv : b.val < 2 ^ 32) (hal : alignedN 32 b) :
    b.first 32 = b.val ∧ b.last 32 = b.val + (2 ^ (32 - b.plen) - 1) := by
  unfold alignedN at hal
  have h : b.val / 2 ^ (32 - b.plen) * 2 ^ (32 - b.plen) = b.val := by
    have := Nat.div_add_mod b.val (2 ^ (32 - b.plen))
    rw [hal, Nat.add_zero, Nat.mul_comm] at this
    exact this
  exact ⟨by rw [Pfx.first, netFirst_eq 32 _ _ hv, h], by rw [Pfx.last, netLast_eq, h]⟩

/-- ascending, separated, aligned blocks whose union is `[lo, hi]` are consecutive -/
theorem tiles_of_sorted (hi : Nat) (hhi : hi < 2 ^ 32) : ∀ (l : List Pfx) (lo : Nat), lo ≤ hi + 1 →
    (∀ b ∈ l, alignedN 32 b) →
    l.Pairwise (fun b c => b.val + 2 ^ (32 - b.plen) ≤ c.val) →
    (∀ a, lden 32 l a ↔ lo ≤ a ∧ a ≤ hi) →
    (∀ b ∈ l, b.val < 2 ^ 32) ∧ Tiles (l.map (fun b => (b.first 32, b.last 32))) lo hi := by
  intro l
  induction l with
  | nil =>
    intro lo hlo _ _ hden
    refine ⟨fun b hb => absurd hb (by simp), ?_⟩
    simp only [List.map_nil, Tiles]
    by_cases h : lo ≤ hi
    · have := (hden lo).2 ⟨Nat.le_refl _, h⟩
      simp [lden] at this
    · omega
  | cons b r ih =>
    intro lo hlo hal hs hden
    have hpos : 0 < 2 ^ (32 - b.plen) := Nat.pos_of_ne_zero (by simp)
    have hsb : ∀ c ∈ r, b.val + 2 ^ (32 - b.plen) ≤ c.val := fun c hc => List.rel_of_pairwise_cons hs hc
    -- members of b are in the union
    have hb_in : ∀ a, bmem 32 b a → lo ≤ a ∧ a ≤ hi := fun a ha => (hden a).1 ⟨b, List.mem_cons_self .., ha⟩
    have h1 := hb_in b.val ⟨Nat.le_refl _, by omega⟩
    have h2 := hb_in (b.val + (2 ^ (32 - b.plen) - 1)) ⟨by omega, by omega⟩
    -- lo belongs to some block; it can only be b
    have hlo_in : lden 32 (b :: r) lo := (hden lo).2 ⟨Nat.le_refl _, by omega⟩
    have hval : b.val = lo := by
      obtain ⟨x, hx, hxm⟩ := hlo_in
      rcases List.mem_cons.1 hx with e | e
      · subst e; have := hxm.1; omega
      · have := hsb x e; have := hxm.1; omega
    have hbv : b.val < 2 ^ 32 := by omega
    obtain ⟨hf, hl⟩ := pfx_first_last b hbv (hal b (List.mem_cons_self ..))
    have hden' : ∀ a, lden 32 r a ↔ b.val + (2 ^ (32 - b.plen) - 1) + 1 ≤ a ∧ a ≤ hi := by
      intro a
      constructor
      · rintro ⟨c, hc, hcm⟩
        have := (hden a).1 ⟨c, List.mem_cons_of_mem _ hc, hcm⟩
        have := hsb c hc; have := hcm.1
        omega
      · intro ha
        obtain ⟨c, hc, hcm⟩ := (hden a).2 ⟨by omega, ha.2⟩
        rcases List.mem_cons.1 hc with e | e
        · subst e; have := hcm.2; omega
        · exact ⟨c, e, hcm⟩
    obtain ⟨ihv, iht⟩ := ih (b.val + (2 ^ (32 - b.plen) - 1) + 1) (by omega)
      (fun c hc => hal c (List.mem_cons_of_mem _ hc)) (List.Pairwise.of_cons hs) hden'
    refine ⟨?_, ?_⟩
    · intro c hc
      rcases List.mem_cons.1 hc with e | e
      · subst e; exact hbv
      · exact ihv c e
    · simp only [List.map_cons, Tiles, hf, hl]
      exact ⟨hval, by omega, h2.2, iht⟩

/-- C05's statement gives the tiling -/
theorem cidrsTile_of_c05 (lo hi : Nat) (hle : lo ≤ hi) (hhi : hi < 2 ^ 32) (h : C05RangeOK lo hi) :
    CidrsTile lo hi := by
  obtain ⟨hc, hden, hwf⟩ := h
  -- separation from strict order + disjointness
  have hsep : (iprangeToCidrs 32 ⟨lo, 32⟩ ⟨hi, 32⟩).Pairwise (fun b c => b.val + 2 ^ (32 - b.plen) ≤ c.val) := by
    have hs := hc.sorted
    rw [List.pairwise_map] at hs
    have hdj := hc.dj
    refine (List.Pairwise.and_mem.1 hs).imp ?_
    rintro b c ⟨hb, hcm, hlt⟩
    simp only at hlt
    have hne : (⟨b.val, 32 - b.plen⟩ : Blk) ≠ ⟨c.val, 32 - c.plen⟩ := by
      intro e; injection e with e1 _; omega
    have := hdj _ (List.mem_map.2 ⟨b, hb, rfl⟩) _ (List.mem_map.2 ⟨c, hcm, rfl⟩) hne c.val
    have hposc : 0 < 2 ^ (32 - c.plen) := Nat.pos_of_ne_zero (by simp)
    simp only [Blk.mem, not_and] at this
    apply Nat.le_of_not_lt
    intro hcon
    exact this ⟨Nat.le_of_lt hlt, hcon⟩ (Nat.le_refl _) (by omega)
  obtain ⟨hv, ht⟩ := tiles_of_sorted hi hhi _ lo (by omega) (fun b hb => (hwf b hb).1) hsep hden
  exact ⟨fun b hb => ⟨hv b hb, (hwf b hb).2⟩, ht⟩

end NV.C17
