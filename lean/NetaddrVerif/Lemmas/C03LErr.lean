/-
Lemmas/C03LErr.lean — every way `IPNetwork(<str>)` can fail is AddrFormatError: value bounds of
accepted addresses, completeness of the generated mask tables on everything the mask
predicates accept, '/'-freeness of the pieces.  Core Lean only.
-/
import NetaddrVerif.Lemmas.C03L
namespace NV.C03L
open NV NV.Text4 NV.Text6 NV.AddrParse NV.NetParse NV.C01L

theorem mem_takeWhile {α} (p : α → Bool) (l : List α) (x : α) (h : x ∈ l.takeWhile p) : p x = true := by
  induction l with
  | nil => simp at h
  | cons a t ih =>
    rw [List.takeWhile_cons] at h
    by_cases ha : p a = true
    · simp only [ha, if_true, List.mem_cons] at h
      rcases h with e | e
      · subst e; exact ha
      · exact ih e
    · simp [ha] at h

theorem splitSlash_fst (s : List Char) : (splitSlash s).1.contains '/' = false := by
  unfold splitSlash
  by_cases h : s.contains '/' = true
  · simp only [h, if_true]
    apply contains_false_of_not_mem
    intro hm
    have := mem_takeWhile _ _ _ hm
    simp at this
  · have h' : s.contains '/' = false := by
      cases hh : s.contains '/' with
      | true => exact absurd hh h
      | false => rfl
    simp only [h', Bool.false_eq_true, if_false]

/-! ### accepted addresses are in range -/
theorem hexVal_lt (c : Char) (h : isHexC c = true) : hexVal c < 16 := by
  unfold hexVal
  simp only [isHexC, Bool.or_eq_true, Bool.and_eq_true, decide_eq_true_eq] at h
  by_cases h1 : '0' ≤ c ∧ c ≤ '9'
  · have := Char.le_def.mp h1.1; have := Char.le_def.mp h1.2
    simp only [h1, and_self, if_true]
    have a : 48 ≤ c.toNat := Char.le_def.mp h1.1
    have b : c.toNat ≤ 57 := Char.le_def.mp h1.2
    omega
  · by_cases h2 : 'a' ≤ c ∧ c ≤ 'f'
    · simp only [h1, if_false, h2, and_self, if_true]
      have a : 97 ≤ c.toNat := Char.le_def.mp h2.1
      have b : c.toNat ≤ 102 := Char.le_def.mp h2.2
      omega
    · simp only [h1, if_false, h2]
      rcases h with (h | h) | h
      · exact absurd h h1
      · exact absurd h h2
      · have a : 65 ≤ c.toNat := Char.le_def.mp h.1
        have b : c.toNat ≤ 70 := Char.le_def.mp h.2
        omega

theorem ofBase16_lt (t : List Char) (h : ∀ c ∈ t, isHexC c = true) (acc : Nat) :
    t.foldl (fun a c => a * 16 + hexVal c) acc < (acc + 1) * 16 ^ t.length := by
  induction t generalizing acc with
  | nil => simp
  | cons c r ih =>
    have hc := hexVal_lt c (h c (by simp))
    have := ih (fun x hx => h x (by simp [hx])) (acc * 16 + hexVal c)
    simp only [List.foldl_cons, List.length_cons, Nat.pow_succ]
    calc _ < (acc * 16 + hexVal c + 1) * 16 ^ r.length := this
      _ ≤ ((acc + 1) * 16) * 16 ^ r.length := Nat.mul_le_mul_right _ (by omega)
      _ = (acc + 1) * (16 ^ r.length * 16) := by rw [Nat.mul_assoc, Nat.mul_comm 16]

theorem hextet_lt (t : List Char) (n : Nat) (h : hextet t = some n) : n < 65536 := by
  unfold hextet at h
  split at h
  · rename_i hc
    cases h
    have hall : ∀ c ∈ t, isHexC c = true := List.all_eq_true.mp hc.2.2
    have := ofBase16_lt t hall 0
    have hp : 16 ^ t.length ≤ 16 ^ 4 := Nat.pow_le_pow_right (by decide) hc.2.1
    show t.foldl (fun a c => a * 16 + hexVal c) 0 < 65536
    omega
  · cases h

theorem groups_small (toks : List (List Char)) (ws : List Nat) (gap : Option Nat) (ws' : List Nat) (g : Option Nat)
    (hs : Small ws) (h : groups toks ws gap = some (ws', g)) : Small ws' := by
  induction toks generalizing ws gap with
  | nil => simp [groups] at h; rw [← h.1]; exact hs
  | cons t rest ih =>
    unfold groups at h
    split at h
    · exact ih ws _ hs h
    · split at h
      · split at h
        · cases h
        · cases hp : Text4.pton4 t with
          | none => simp [hp] at h
          | some v4 =>
            simp only [hp, Option.some.injEq, Prod.mk.injEq] at h
            have hv := ((pton4_iff t v4).mp hp).1
            rw [← h.1]
            intro n hn
            rcases List.mem_append.mp hn with e | e
            · exact hs n e
            · simp only [List.mem_cons, List.not_mem_nil, or_false] at e
              rcases e with e | e <;> subst e <;> omega
      · cases hh : hextet t with
        | none => simp [hh] at h
        | some hv =>
          simp only [hh] at h
          apply ih (ws ++ [hv]) gap _ h
          intro n hn
          rcases List.mem_append.mp hn with e | e
          · exact hs n e
          · simp only [List.mem_singleton] at e; subst e; exact hextet_lt t _ hh

theorem ofWords_lt (ws : List Nat) (hs : Small ws) (acc : Nat) :
    ws.foldl (fun a w => a * 65536 + w) acc < (acc + 1) * 65536 ^ ws.length := by
  induction ws generalizing acc with
  | nil => simp
  | cons w r ih =>
    have hw := hs w (by simp)
    have := ih (fun x hx => hs x (by simp [hx])) (acc * 65536 + w)
    simp only [List.foldl_cons, List.length_cons, Nat.pow_succ]
    calc _ < (acc * 65536 + w + 1) * 65536 ^ r.length := this
      _ ≤ ((acc + 1) * 65536) * 65536 ^ r.length := Nat.mul_le_mul_right _ (by omega)
      _ = (acc + 1) * (65536 ^ r.length * 65536) := by rw [Nat.mul_assoc, Nat.mul_comm 65536]

theorem ofWords8_lt (ws : List Nat) (hs : Small ws) (hl : ws.length = 8) : ofWords ws < 2 ^ 128 := by
  have := ofWords_lt ws hs 0
  rw [hl] at this
  simpa [ofWords] using this

/-- whatever `inet_pton(AF_INET6, ·)` accepts is a 128-bit value -/
theorem pton6_lt (s : List Char) (v : Nat) (h : Text6.pton6 s = some v) : v < 2 ^ 128 := by
  unfold Text6.pton6 at h
  simp only at h
  split at h
  · cases h
  · split at h
    · cases h
    · split at h
      · cases h
      · split at h
        · cases h
        · split at h
          · cases h
          · rename_i ws hg
            have hsm := groups_small _ [] none ws none (by intro n hn; simp at hn) hg
            split at h
            · rename_i hl; cases h; exact ofWords8_lt ws hsm hl
            · cases h
          · rename_i ws g hg
            have hsm := groups_small _ [] none ws (some g) (by intro n hn; simp at hn) hg
            split at h
            · cases h
            · rename_i hl
              cases h
              apply ofWords8_lt
              · intro n hn
                simp only [List.mem_append, List.mem_replicate] at hn
                rcases hn with (e | e) | e
                · exact hsm n (List.mem_of_mem_take e)
                · rw [e.2]; decide
                · exact hsm n (List.mem_of_mem_drop e)
              · simp only [List.length_append, List.length_take, List.length_replicate, List.length_drop]
                omega

/-- a strict-mode address object is in range -/
theorem ipAddress_ok_lt (be : Backend) (t : List Char) (ver : Nat) (hver : VerOK ver) (a : Addr)
    (h : ipAddress be t (some ver) INET_PTON = .ok a) : a.ver = ver ∧ a.val < 2 ^ width ver := by
  have hpt : hasFlag INET_PTON INET_PTON = true := by decide
  have hzf : hasFlag INET_PTON ZEROFILL = false := by decide
  unfold ipAddress at h
  rcases hver with e | e <;> subst e
  · have hv4 : ¬ ((4 : Nat) ≠ 4 ∧ (4 : Nat) ≠ 6) := by decide
    simp only [hv4, if_false] at h
    split at h
    · cases h
    · simp only [strToInt, if_true, strToInt4, hpt, hzf, Bool.false_eq_true, if_false] at h
      cases hp : inetPton4 be t with
      | none => simp [hp] at h
      | some v =>
        simp only [hp] at h
        cases h
        exact ⟨rfl, ((C01.strict4_iff be t v).mp hp).1⟩
  · have hv6 : ¬ ((6 : Nat) ≠ 4 ∧ (6 : Nat) ≠ 6) := by decide
    have h64 : ¬ ((6 : Nat) = 4) := by decide
    simp only [hv6, if_false] at h
    split at h
    · cases h
    · simp only [strToInt, h64, if_false, strToInt6] at h
      cases hp : inetPton6 be t with
      | none => simp [hp] at h
      | some v =>
        simp only [hp] at h
        cases h
        rw [inetPton6_eq] at hp
        exact ⟨rfl, pton6_lt t v hp⟩

/-! ### the tables answer for every mask the predicates accept -/
theorem lookup_netmask (ver : Nat) (hver : VerOK ver) (m : Nat) (hm : m < 2 ^ width ver)
    (h : isNetmask (width ver) m = true) : ∃ p, p ≤ width ver ∧ (netmaskToPrefix ver).lookup m = some p := by
  obtain ⟨p, hp, rfl⟩ := (C02.isNetmask_iff (width ver) m hm).mp h
  have hf := maskFacts_all ver hver p hp
  simp only [maskFacts, Bool.and_eq_true, beq_iff_eq] at hf
  exact ⟨p, hp, hf.1.1.1.1.1.1.2⟩

theorem lookup_hostmask (ver : Nat) (hver : VerOK ver) (m : Nat) (hm : m < 2 ^ width ver)
    (h : isHostmask m = true) : ∃ p, p ≤ width ver ∧ (hostmaskToPrefix ver).lookup m = some p := by
  obtain ⟨k, rfl⟩ := (C02.isHostmask_iff m).mp h
  have hk : k ≤ width ver := by
    apply Nat.le_of_not_lt
    intro hlt
    have : 2 ^ (width ver + 1) ≤ 2 ^ k := Nat.pow_le_pow_right (by decide) hlt
    have h2 : 2 ^ (width ver + 1) = 2 * 2 ^ width ver := by rw [Nat.pow_succ]; omega
    have := Nat.pos_of_ne_zero (show 2 ^ width ver ≠ 0 by simp)
    omega
  have hp : width ver - k ≤ width ver := by omega
  have hf := maskFacts_all ver hver (width ver - k) hp
  simp only [maskFacts, Bool.and_eq_true, beq_iff_eq] at hf
  have e : netHostmask (width ver) (width ver - k) = 2 ^ k - 1 := by
    unfold netHostmask
    rw [Nat.one_shiftLeft]
    congr 2; omega
  rw [e] at hf
  exact ⟨_, hp, hf.1.1.1.1.1.2⟩

theorem showInt_noslash (i : Int) : '/' ∉ showInt i := by
  unfold showInt
  split
  · intro h
    rcases List.mem_cons.mp h with e | e
    · exact absurd e (by decide)
    · exact (dec_decCh _ _ e).2.2.2.2.2.2.1 rfl
  · intro h; exact (dec_decCh _ _ h).2.2.2.2.2.2.1 rfl

theorem mapM_mem {α β} (f : α → Option β) (l : List α) (r : List β) (h : l.mapM f = some r) :
    ∀ y ∈ r, ∃ x ∈ l, f x = some y := by
  induction l generalizing r with
  | nil => simp at h; subst h; intro y hy; simp at hy
  | cons a t ih =>
    rw [List.mapM_cons] at h
    cases ha : f a with
    | none => simp [ha] at h
    | some b =>
      cases ht : t.mapM f with
      | none => simp [ha, ht] at h
      | some r' =>
        simp [ha, ht] at h
        subst h
        intro y hy
        rcases List.mem_cons.mp hy with e | e
        · subst e; exact ⟨a, by simp, ha⟩
        · obtain ⟨x, hx, hfx⟩ := ih r' ht y e
          exact ⟨x, by simp [hx], hfx⟩

/-- `expand_partial_address` yields a '/'-free string -/
theorem expand_noslash (s t : List Char) (h : expandPartialAddress s = .ok t) : t.contains '/' = false := by
  unfold expandPartialAddress at h
  split at h
  · cases h
  · simp only at h
    split at h
    · cases h
    · rename_i tokens htok
      split at h
      · cases h
        apply contains_false_of_not_mem
        intro hm
        rcases mem_intercalate '.' _ '/' hm with e | ⟨tok, htk, hc⟩
        · exact absurd e (by decide)
        · rcases List.mem_append.mp htk with e | e
          · -- a token printed from an int
            have key : ∃ i : Int, tok = showInt i := by
              split at htok
              · obtain ⟨x, _, hfx⟩ := mapM_mem _ _ _ htok tok e
                cases hpi : Py.pyInt 10 x with
                | none => simp [hpi] at hfx
                | some i => simp [hpi] at hfx; exact ⟨i, hfx.symm⟩
              · cases hpi : Py.pyInt 10 s with
                | none => simp [hpi] at htok
                | some i =>
                  simp [hpi] at htok
                  subst htok
                  simp at e
                  exact ⟨i, e⟩
            obtain ⟨i, rfl⟩ := key
            exact showInt_noslash i hc
          · simp only [List.mem_replicate] at e
            rw [e.2] at hc
            simp at hc
      · cases h

end NV.C03L
