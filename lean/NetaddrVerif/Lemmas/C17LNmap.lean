/-
Lemmas/C17LNmap.lean — nmap target specs: the octet lists and the cartesian generator.
-/
import NetaddrVerif.Model.Nmap
namespace NV.C17
open NV NV.Nmap

/-! ### the fuel-bounded loops are a prefix of the full enumeration -/

theorem flatMapTake_eq {α β : Type} (g : α → Nat → List β) (g' : α → List β)
    (hg : ∀ a n, g a n = (g' a).take n) :
    ∀ (l : List α) (n : Nat), flatMapTake g l n = (l.flatMap g').take n := by
  intro l
  induction l with
  | nil => intro n; simp [flatMapTake]
  | cons a t ih =>
    intro n
    unfold flatMapTake
    by_cases h0 : n = 0
    · subst h0; simp
    · simp only [h0, if_false, List.flatMap_cons, List.take_append, hg, ih]
      congr 2
      rw [List.length_take]
      omega

/-- the full enumeration of the four nested loops -/
def fullProduct (ws xs ys zs : List Nat) : List Nat :=
  ws.flatMap fun w => xs.flatMap fun x => ys.flatMap fun y =>
    zs.map fun z => w * 2 ^ 24 + x * 2 ^ 16 + y * 2 ^ 8 + z

theorem product4_eq (ws xs ys zs : List Nat) (fuel : Nat) :
    product4 ws xs ys zs fuel = (fullProduct ws xs ys zs).take fuel := by
  unfold product4 fullProduct
  apply flatMapTake_eq
  intro w n
  apply flatMapTake_eq
  intro x n
  apply flatMapTake_eq
  intro y n
  rw [List.map_take]

/-! ### sorted(set) -/

theorem mem_sortedSet (l : List Nat) (v : Nat) : v ∈ sortedSet l ↔ v ∈ l ∧ v < 256 := by
  unfold sortedSet
  rw [List.mem_filter, List.mem_range, List.contains_iff_mem]
  exact ⟨fun h => ⟨h.2, h.1⟩, fun h => ⟨h.2, h.1⟩⟩

theorem sortedSet_sorted (l : List Nat) : (sortedSet l).Pairwise (· < ·) :=
  List.Pairwise.filter _ List.pairwise_lt_range

theorem sortedSet_lt (l : List Nat) : ∀ v ∈ sortedSet l, v < 256 := fun v h => ((mem_sortedSet l v).1 h).2

/-! ### one element -/

/-- SPEC: the closed octet interval an nmap list element denotes (`n`, `a-b`, `-b`, `a-`, `-`),
    numerals read by `int()`; `none` = malformed (not an int, outside 0..255, or a > b) -/
def elemBounds (el : List Char) : Option (Nat × Nat) :=
  if '-' ∈ el then
    let l := el.takeWhile (· != '-')
    let r := (el.dropWhile (· != '-')).drop 1
    match (if l = [] then some 0 else Py.pyInt 10 l), (if r = [] then some 255 else Py.pyInt 10 r) with
    | some a, some b => if 0 ≤ a ∧ a ≤ b ∧ b ≤ 255 then some (a.toNat, b.toNat) else none
    | _, _ => none
  else
    match Py.pyInt 10 el with
    | some a => if 0 ≤ a ∧ a ≤ 255 then some (a.toNat, a.toNat) else none
    | none => none

theorem mem_closedRange (lo hi v : Nat) : v ∈ closedRange lo hi ↔ lo ≤ v ∧ v ≤ hi := by
  unfold closedRange
  simp only [List.mem_map, List.mem_range]
  constructor
  · rintro ⟨i, hi', rfl⟩; omega
  · intro h; exact ⟨v - lo, by omega, by omega⟩

/-- `elementValues` succeeds exactly on well-formed elements and then yields the denoted
    interval; every failure is a ValueError -/
theorem elementValues_spec (el : List Char) :
    match elemBounds el with
    | some (lo, hi) => ∃ l, elementValues el = .ok l ∧ l ≠ [] ∧ (∀ v, v ∈ l ↔ lo ≤ v ∧ v ≤ hi) ∧ hi ≤ 255
    | none => elementValues el = .error .value := by
  unfold elemBounds elementValues
  by_cases hm : '-' ∈ el
  · have hc : el.contains '-' = true := List.contains_iff_mem.2 hm
    simp only [hm, if_true, hc, split1, intOr, List.isEmpty_iff]
    generalize el.takeWhile (fun c => c != '-') = l
    generalize (el.dropWhile (fun c => c != '-')).drop 1 = r
    cases ha : (if l = [] then some (0 : Int) else Py.pyInt 10 l) with
    | none => simp
    | some a =>
      cases hb : (if r = [] then some (255 : Int) else Py.pyInt 10 r) with
      | none => simp
      | some b =>
        simp only
        by_cases hc1 : (0 ≤ a ∧ a ≤ b ∧ b ≤ 255)
        · have c1 : ((0 ≤ a ∧ a ≤ 255) ∧ (0 ≤ b ∧ b ≤ 255)) := by omega
          have c2 : ¬ (a > b) := by omega
          simp only [hc1, and_self, if_true, c1, not_true_eq_false, if_false, c2]
          refine ⟨_, rfl, ?_, ?_, by omega⟩
          · intro h
            have : a.toNat ∈ closedRange a.toNat b.toNat := (mem_closedRange _ _ _).2 ⟨Nat.le_refl _, by omega⟩
            rw [h] at this; exact absurd this (by simp)
          · intro v; exact mem_closedRange _ _ _
        · simp only [hc1, if_false]
          by_cases c1 : ((0 ≤ a ∧ a ≤ 255) ∧ (0 ≤ b ∧ b ≤ 255))
          · have c2 : a > b := by omega
            simp [c1, c2]
          · simp [c1]
  · have hc : el.contains '-' = false := by
      rw [Bool.eq_false_iff]; intro h; exact hm (List.contains_iff_mem.1 h)
    simp only [hm, if_false, hc, Bool.false_eq_true]
    cases ha : Py.pyInt 10 el with
    | none => simp
    | some a =>
      simp only
      by_cases c : (0 ≤ a ∧ a ≤ 255)
      · simp only [c, and_self, if_true, not_true_eq_false, if_false]
        exact ⟨_, rfl, by simp, by intro v; simp; omega, by omega⟩
      · simp [c]

/-! ### one octet list -/

theorem mapM_exc_cons {α β : Type} (f : α → R β) (a : α) (l : List α) :
    (a :: l).mapM f = match f a with
      | .error e => .error e
      | .ok b => match l.mapM f with
        | .error e => .error e
        | .ok bs => .ok (b :: bs) := by
  rw [List.mapM_cons]
  cases f a with
  | error e => rfl
  | ok b => cases l.mapM f <;> rfl

theorem mapM_exc_nil {α β : Type} (f : α → R β) : ([] : List α).mapM f = .ok [] := rfl

/-- SPEC: `v` belongs to the comma/hyphen list `tok` -/
def OctetDen (tok : List Char) (v : Nat) : Prop :=
  ∃ el ∈ tok.splitOn ',', ∃ lo hi, elemBounds el = some (lo, hi) ∧ lo ≤ v ∧ v ≤ hi

/-- SPEC: every element of the comma list is well formed -/
def OctetWF (tok : List Char) : Prop := ∀ el ∈ tok.splitOn ',', (elemBounds el).isSome = true

theorem elements_ok : ∀ (els : List (List Char)), (∀ el ∈ els, (elemBounds el).isSome = true) →
    ∃ ls, els.mapM elementValues = .ok ls ∧ (els ≠ [] → ls.flatten ≠ []) ∧
      ∀ v, v ∈ ls.flatten ↔ ∃ el ∈ els, ∃ lo hi, elemBounds el = some (lo, hi) ∧ lo ≤ v ∧ v ≤ hi := by
  intro els
  induction els with
  | nil => intro _; exact ⟨[], rfl, fun h => absurd rfl h, by simp⟩
  | cons el r ih =>
    intro h
    obtain ⟨ls, h1, _, h3⟩ := ih (fun e he => h e (List.mem_cons_of_mem _ he))
    have hel := h el (List.mem_cons_self ..)
    have sp := elementValues_spec el
    cases hb : elemBounds el with
    | none => rw [hb] at hel; exact absurd hel (by simp)
    | some p =>
      obtain ⟨lo, hi⟩ := p
      rw [hb] at sp
      obtain ⟨l, e1, e2, e3, _⟩ := sp
      refine ⟨l :: ls, by rw [mapM_exc_cons, e1, h1], ?_, ?_⟩
      · intro _
        cases l with
        | nil => exact absurd rfl e2
        | cons a t => simp
      · intro v
        simp only [List.flatten_cons, List.mem_append, List.mem_cons, exists_eq_or_imp, h3 v, e3 v]
        constructor
        · rintro (hv | hv)
          · exact Or.inl ⟨lo, hi, hb, hv⟩
          · exact Or.inr hv
        · rintro (⟨lo', hi', hb', hv⟩ | hv)
          · rw [hb] at hb'; simp only [Option.some.injEq, Prod.mk.injEq] at hb'
            obtain ⟨rfl, rfl⟩ := hb'; exact Or.inl hv
          · exact Or.inr hv

theorem elements_err : ∀ (els : List (List Char)), (∃ el ∈ els, elemBounds el = none) →
    els.mapM elementValues = .error .value := by
  intro els
  induction els with
  | nil => rintro ⟨el, h, _⟩; exact absurd h (by simp)
  | cons el r ih =>
    rintro ⟨x, hx, hb⟩
    rw [mapM_exc_cons]
    have sp := elementValues_spec el
    cases hb' : elemBounds el with
    | none => rw [hb'] at sp; rw [sp]
    | some p =>
      obtain ⟨lo, hi⟩ := p
      rw [hb'] at sp
      obtain ⟨l, e1, _⟩ := sp
      have : ∃ el ∈ r, elemBounds el = none := by
        rcases List.mem_cons.1 hx with e | e
        · subst e; rw [hb'] at hb; exact absurd hb (by simp)
        · exact ⟨x, e, hb⟩
      rw [e1, ih this]

/-- well-formed octet list: the sorted, duplicate-free values of its denotation -/
theorem octetTargetValues_ok (tok : List Char) (h : OctetWF tok) :
    ∃ l, octetTargetValues tok = .ok l ∧ l ≠ [] ∧ l.Pairwise (· < ·) ∧ (∀ v ∈ l, v < 256) ∧
      ∀ v, v ∈ l ↔ OctetDen tok v := by
  obtain ⟨ls, h1, h2, h3⟩ := elements_ok _ h
  have hden : ∀ v, v ∈ ls.flatten → v < 256 := by
    intro v hv
    obtain ⟨el, _, lo, hi, hb, _, hvhi⟩ := (h3 v).1 hv
    have sp := elementValues_spec el
    rw [hb] at sp
    obtain ⟨_, _, _, _, hhi⟩ := sp
    omega
  refine ⟨sortedSet ls.flatten, by simp [octetTargetValues, h1], ?_, sortedSet_sorted _, sortedSet_lt _, ?_⟩
  · have hne := h2 (List.splitOn_ne_nil ',' tok)
    cases hf : ls.flatten with
    | nil => exact absurd hf hne
    | cons a t =>
      have ha : a ∈ ls.flatten := by rw [hf]; simp
      intro he
      have : a ∈ sortedSet ls.flatten := (mem_sortedSet _ _).2 ⟨ha, hden a ha⟩
      rw [hf] at this; rw [he] at this; exact absurd this (by simp)
  · intro v
    rw [mem_sortedSet]
    constructor
    · rintro ⟨hv, _⟩; exact (h3 v).1 hv
    · intro hv; exact ⟨(h3 v).2 hv, hden v ((h3 v).2 hv)⟩

/-- malformed octet list: ValueError -/
theorem octetTargetValues_err (tok : List Char) (h : ¬ OctetWF tok) :
    octetTargetValues tok = .error .value := by
  have : ∃ el ∈ tok.splitOn ',', elemBounds el = none := by
    apply Classical.byContradiction
    intro hn
    apply h
    intro el hel
    cases hh : elemBounds el with
    | none => exact absurd ⟨el, hel, hh⟩ hn
    | some p => rfl
  simp [octetTargetValues, elements_err _ this]

/-! ### the cartesian enumeration -/

theorem mem_fullProduct (ws xs ys zs : List Nat) (bw : ∀ v ∈ ws, v < 256) (bx : ∀ v ∈ xs, v < 256)
    (by' : ∀ v ∈ ys, v < 256) (bz : ∀ v ∈ zs, v < 256) (a : Nat) :
    a ∈ fullProduct ws xs ys zs ↔
      a < 2 ^ 32 ∧ a / 2 ^ 24 % 256 ∈ ws ∧ a / 2 ^ 16 % 256 ∈ xs ∧ a / 2 ^ 8 % 256 ∈ ys ∧ a % 256 ∈ zs := by
  unfold fullProduct
  simp only [List.mem_flatMap, List.mem_map]
  constructor
  · rintro ⟨w, hw, x, hx, y, hy, z, hz, rfl⟩
    have := bw w hw; have := bx x hx; have := by' y hy; have := bz z hz
    have e1 : (w * 2 ^ 24 + x * 2 ^ 16 + y * 2 ^ 8 + z) / 2 ^ 24 % 256 = w := by omega
    have e2 : (w * 2 ^ 24 + x * 2 ^ 16 + y * 2 ^ 8 + z) / 2 ^ 16 % 256 = x := by omega
    have e3 : (w * 2 ^ 24 + x * 2 ^ 16 + y * 2 ^ 8 + z) / 2 ^ 8 % 256 = y := by omega
    have e4 : (w * 2 ^ 24 + x * 2 ^ 16 + y * 2 ^ 8 + z) % 256 = z := by omega
    rw [e1, e2, e3, e4]
    exact ⟨by omega, hw, hx, hy, hz⟩
  · rintro ⟨ha, hw, hx, hy, hz⟩
    exact ⟨_, hw, _, hx, _, hy, _, hz, by omega⟩

theorem fullProduct_sorted (ws xs ys zs : List Nat)
    (sw : ws.Pairwise (· < ·)) (sx : xs.Pairwise (· < ·)) (sy : ys.Pairwise (· < ·)) (sz : zs.Pairwise (· < ·))
    (bx : ∀ v ∈ xs, v < 256) (by' : ∀ v ∈ ys, v < 256) (bz : ∀ v ∈ zs, v < 256) :
    (fullProduct ws xs ys zs).Pairwise (· < ·) := by
  unfold fullProduct
  rw [List.pairwise_flatMap]
  refine ⟨fun w _ => ?_, sw.imp ?_⟩
  · rw [List.pairwise_flatMap]
    refine ⟨fun x _ => ?_, sx.imp ?_⟩
    · rw [List.pairwise_flatMap]
      refine ⟨fun y _ => ?_, sy.imp ?_⟩
      · rw [List.pairwise_map]
        exact sz.imp (fun h => by omega)
      · intro y y' hyy p hp q hq
        simp only [List.mem_map] at hp hq
        obtain ⟨z, hz, rfl⟩ := hp
        obtain ⟨z', hz', rfl⟩ := hq
        have := bz z hz; have := bz z' hz'
        omega
    · intro x x' hxx p hp q hq
      simp only [List.mem_flatMap, List.mem_map] at hp hq
      obtain ⟨y, hy, z, hz, rfl⟩ := hp
      obtain ⟨y', hy', z', hz', rfl⟩ := hq
      have := bz z hz; have := bz z' hz'; have := by' y hy; have := by' y' hy'
      omega
  · intro w w' hww p hp q hq
    simp only [List.mem_flatMap, List.mem_map] at hp hq
    obtain ⟨x, hx, y, hy, z, hz, rfl⟩ := hp
    obtain ⟨x', hx', y', hy', z', hz', rfl⟩ := hq
    have := bz z hz; have := bz z' hz'; have := by' y hy; have := by' y' hy'
    have := bx x hx; have := bx x' hx'
    omega

theorem fullProduct_ne_nil (ws xs ys zs : List Nat) (hw : ws ≠ []) (hx : xs ≠ []) (hy : ys ≠ []) (hz : zs ≠ []) :
    fullProduct ws xs ys zs ≠ [] := by
  cases ws with
  | nil => exact absurd rfl hw
  | cons w _ =>
    cases xs with
    | nil => exact absurd rfl hx
    | cons x _ =>
      cases ys with
      | nil => exact absurd rfl hy
      | cons y _ =>
        cases zs with
        | nil => exact absurd rfl hz
        | cons z _ => simp [fullProduct]

/-! ### four octet lists -/

theorem octetTargetValues_cases (tok : List Char) :
    (OctetWF tok ∧ ∃ l, octetTargetValues tok = .ok l ∧ l ≠ [] ∧ l.Pairwise (· < ·) ∧ (∀ v ∈ l, v < 256) ∧
      ∀ v, v ∈ l ↔ OctetDen tok v) ∨ (¬ OctetWF tok ∧ octetTargetValues tok = .error .value) := by
  by_cases h : OctetWF tok
  · exact Or.inl ⟨h, octetTargetValues_ok tok h⟩
  · exact Or.inr ⟨h, octetTargetValues_err tok h⟩

theorem generate_ok {spec : List Char} {rs : List (List Nat)} (h : generateOctetRanges spec = .ok rs) :
    spec ≠ [] ∧ ∃ t0 t1 t2 t3 l0 l1 l2 l3, spec.splitOn '.' = [t0, t1, t2, t3] ∧ rs = [l0, l1, l2, l3] ∧
      octetTargetValues t0 = .ok l0 ∧ octetTargetValues t1 = .ok l1 ∧
      octetTargetValues t2 = .ok l2 ∧ octetTargetValues t3 = .ok l3 := by
  unfold generateOctetRanges at h
  by_cases he : spec.isEmpty = true
  · simp [he] at h
  · simp only [he, Bool.false_eq_true, if_false] at h
    by_cases hl : (spec.splitOn '.').length ≠ 4
    · simp [hl] at h
    · simp only [hl, if_false] at h
      have hl' : (spec.splitOn '.').length = 4 := by omega
      refine ⟨by intro e; subst e; simp at he, ?_⟩
      match hsp : spec.splitOn '.', hl' with
      | [t0, t1, t2, t3], _ =>
        rw [hsp] at h
        simp only [mapM_exc_cons, mapM_exc_nil] at h
        cases h0 : octetTargetValues t0 with
        | error e => simp [h0] at h
        | ok l0 =>
          cases h1 : octetTargetValues t1 with
          | error e => simp [h0, h1] at h
          | ok l1 =>
            cases h2 : octetTargetValues t2 with
            | error e => simp [h0, h1, h2] at h
            | ok l2 =>
              cases h3 : octetTargetValues t3 with
              | error e => simp [h0, h1, h2, h3] at h
              | ok l3 =>
                simp only [h0, h1, h2, h3, Except.ok.injEq] at h
                exact ⟨t0, t1, t2, t3, l0, l1, l2, l3, rfl, h.symm, h0, h1, h2, h3⟩

theorem generate_err {spec : List Char} {e : Err} (h : generateOctetRanges spec = .error e) :
    e = .value ∨ e = .addrFormat := by
  unfold generateOctetRanges at h
  by_cases he : spec.isEmpty = true
  · simp [he] at h; exact Or.inl h.symm
  · simp only [he, Bool.false_eq_true, if_false] at h
    by_cases hl : (spec.splitOn '.').length ≠ 4
    · simp [hl] at h; exact Or.inr h.symm
    · simp only [hl, if_false] at h
      have hl' : (spec.splitOn '.').length = 4 := by omega
      match hsp : spec.splitOn '.', hl' with
      | [t0, t1, t2, t3], _ =>
        rw [hsp] at h
        simp only [mapM_exc_cons, mapM_exc_nil] at h
        left
        rcases octetTargetValues_cases t0 with ⟨_, l0, h0, _⟩ | ⟨_, h0⟩ <;>
        rcases octetTargetValues_cases t1 with ⟨_, l1, h1, _⟩ | ⟨_, h1⟩ <;>
        rcases octetTargetValues_cases t2 with ⟨_, l2, h2, _⟩ | ⟨_, h2⟩ <;>
        rcases octetTargetValues_cases t3 with ⟨_, l3, h3, _⟩ | ⟨_, h3⟩ <;>
        simp [h0, h1, h2, h3] at h <;> exact h.symm

end NV.C17
