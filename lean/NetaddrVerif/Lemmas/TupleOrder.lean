/-
Lemmas/TupleOrder.lean — Python tuple comparison (`tupleCmp`) is a total preorder.
-/
import NetaddrVerif.Model.Compare
namespace NV

theorem tupleCmp_swap : ∀ (a b : List Int),
    (tupleCmp a b = .gt ↔ tupleCmp b a = .lt) ∧ (tupleCmp a b = .eq ↔ tupleCmp b a = .eq) ∧
    (tupleCmp a b = .lt ↔ tupleCmp b a = .gt)
  | [], [] => by simp [tupleCmp]
  | [], _ :: _ => by simp [tupleCmp]
  | _ :: _, [] => by simp [tupleCmp]
  | x :: xs, y :: ys => by
    have ih := tupleCmp_swap xs ys
    simp only [tupleCmp]
    by_cases h1 : x < y
    · have h2 : ¬ y < x := by omega
      have h3 : y > x := h1
      simp [h1, h2]
    · by_cases h2 : x > y
      · have h3 : y < x := h2
        simp [h1, h2]
      · have e : x = y := by omega
        subst e
        simp [ih]

theorem tupleLe_total (a b : List Int) : (tupleLe a b || tupleLe b a) = true := by
  unfold tupleLe
  have := tupleCmp_swap a b
  cases h : tupleCmp a b <;> simp_all

theorem tupleCmp_trans_lt : ∀ (a b c : List Int),
    (tupleCmp a b = .lt → tupleCmp b c ≠ .gt → tupleCmp a c = .lt) ∧
    (tupleCmp a b = .eq → tupleCmp a c = tupleCmp b c)
  | [], [], c => by simp [tupleCmp]
  | [], y :: ys, [] => by simp [tupleCmp]
  | [], y :: ys, z :: zs => by simp [tupleCmp]
  | x :: xs, [], c => by simp [tupleCmp]
  | x :: xs, y :: ys, [] => by
    simp only [tupleCmp]
    refine ⟨fun _ h => absurd rfl h, ?_⟩
    split <;> simp
  | x :: xs, y :: ys, z :: zs => by
    have ih := tupleCmp_trans_lt xs ys zs
    simp only [tupleCmp]
    constructor
    · intro h1 h2
      by_cases hxy : x < y
      · by_cases hyz : y < z
        · have : x < z := by omega
          simp [this]
        · by_cases hzy : y > z
          · simp [hyz, hzy] at h2
          · have e : y = z := by omega
            subst e; simp [hxy]
      · by_cases hyx : x > y
        · simp [hxy, hyx] at h1
        · have e : x = y := by omega
          subst e
          simp only [hxy, if_false] at h1
          by_cases hyz : x < z
          · simp [hyz]
          · by_cases hzy : x > z
            · simp [hyz, hzy] at h2
            · simp only [hyz, hzy, if_false] at h2 ⊢
              exact ih.1 h1 h2
    · intro h1
      by_cases hxy : x < y
      · simp [hxy] at h1
      · by_cases hyx : x > y
        · simp [hxy, hyx] at h1
        · have e : x = y := by omega
          subst e
          simp only [hxy, if_false] at h1
          by_cases hyz : x < z
          · simp [hyz]
          · by_cases hzy : x > z
            · simp [hyz, hzy]
            · simp only [hyz, hzy, if_false]
              exact ih.2 h1

theorem tupleLe_trans (a b c : List Int) (h1 : tupleLe a b = true) (h2 : tupleLe b c = true) :
    tupleLe a c = true := by
  unfold tupleLe at *
  have t := tupleCmp_trans_lt a b c
  cases hab : tupleCmp a b with
  | lt =>
    have : tupleCmp b c ≠ .gt := by intro e; simp [e] at h2
    rw [t.1 hab this]; rfl
  | eq => rw [t.2 hab]; exact h2
  | gt => simp [hab] at h1

end NV
