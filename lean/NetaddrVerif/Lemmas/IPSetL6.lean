/-
Lemmas/IPSetL6.lean — subset queries, pop, copy under the invariant (C06/C07).
-/
import NetaddrVerif.Lemmas.IPSetL5
namespace NV.IPSet
open NV NV.Blk

/-- a sub-collection (by membership, duplicate-free) of a canonical state is canonical -/
theorem inv_subset (s t : St) (hs : Inv s) (hn : t.Nodup) (hm : ∀ n ∈ t, n ∈ s) : Inv t := by
  refine ⟨fun n h => hs.good n (hm n h), hn, fun ver => canonset_subset (hs.cs ver) ?_⟩
  intro b hb
  obtain ⟨n, h1, h2⟩ := mem_fam.1 hb
  exact mem_fam.2 ⟨n, hm n h1, h2⟩

/-- `issubset`: every stored block of `s` is contained in `t` iff `s ⊆ t` as address sets -/
theorem issubset_iff (s t : St) (hs : Inv s) (ht : Inv t) :
    issubset s t = true ↔ ∀ ver a, denS s ver a → denS t ver a := by
  unfold issubset
  simp only [List.all_eq_true]
  constructor
  · intro h ver a ⟨n, hn, hv, h1, h2⟩
    have := (contains_iff t ht n (hs.good n hn).1).1 (h n hn) a h1 h2
    rw [hv] at this; exact this
  · intro h n hn
    apply (contains_iff t ht n (hs.good n hn).1).2
    intro a h1 h2
    exact h n.ver a ⟨n, hn, rfl, h1, h2⟩

theorem issuperset_iff (s t : St) (hs : Inv s) (ht : Inv t) :
    issuperset s t = true ↔ ∀ ver a, denS t ver a → denS s ver a := issubset_iff t s ht hs

/-- `pop()`: removing a stored key keeps the state canonical and removes exactly its block -/
theorem pop_spec (s : St) (hs : Inv s) (b : Net) (hb : b ∈ s) :
    ∃ s', pop s b = .ok s' ∧ Inv s' ∧
      ∀ ver a, denS s' ver a ↔ denS s ver a ∧ ¬ (ver = b.ver ∧ b.first ≤ a ∧ a ≤ b.last) := by
  have hbg := hs.good b hb
  have hm : dMem s b = true := (dMem_good s hs.good b hbg).2 hb
  refine ⟨dDel s b, by simp [pop, hm], ?_, ?_⟩
  · exact inv_subset s _ hs (nodup_dDel s hs.nodup b) (fun n hn => ((mem_dDel s hs.good b hbg n).1 hn).1)
  · intro ver a
    unfold denS
    constructor
    · rintro ⟨n, hn, hv, hx⟩
      obtain ⟨h1, h2⟩ := (mem_dDel s hs.good b hbg n).1 hn
      refine ⟨⟨n, h1, hv, hx⟩, ?_⟩
      rintro ⟨hvb, hxb⟩
      -- n and b are different stored blocks of one family: disjoint
      have e1 : blk n ∈ fam ver s := mem_fam.2 ⟨n, h1, hv, rfl⟩
      have e2 : blk b ∈ fam ver s := mem_fam.2 ⟨b, hb, hvb.symm, rfl⟩
      have hne := blk_ne n b (hs.good n h1) hbg (hv.trans hvb) h2
      exact (hs.cs ver).dj _ e1 _ e2 hne a ⟨(blk_mem n (hs.good n h1).1 a).2 hx, (blk_mem b hbg.1 a).2 hxb⟩
    · rintro ⟨⟨n, hn, hv, hx⟩, hnot⟩
      refine ⟨n, (mem_dDel s hs.good b hbg n).2 ⟨hn, ?_⟩, hv, hx⟩
      intro e; subst e; exact hnot ⟨hv.symm, hx⟩

/-- `pop()` on a key that is not stored is a KeyError and changes nothing -/
theorem pop_err (s : St) (hs : Inv s) (b : Net) (hbg : Good b) (hb : b ∉ s) : pop s b = .error .key := by
  have : dMem s b = false := by
    cases h : dMem s b with
    | false => rfl
    | true => exact absurd ((dMem_good s hs.good b hbg).1 h) hb
  simp [pop, this]

theorem fromKeys_mem (l : List Net) (hl : ∀ n ∈ l, Good n) :
    (∀ n ∈ fromKeys l, Good n) ∧ (fromKeys l).Nodup ∧ ∀ n, n ∈ fromKeys l ↔ n ∈ l := by
  unfold fromKeys
  suffices h : ∀ (acc : St), (∀ n ∈ acc, Good n) → acc.Nodup →
      (∀ n ∈ l.foldl dInsert acc, Good n) ∧ (l.foldl dInsert acc).Nodup ∧
      ∀ n, n ∈ l.foldl dInsert acc ↔ n ∈ acc ∨ n ∈ l by
    obtain ⟨h1, h2, h3⟩ := h [] (by simp) List.nodup_nil
    exact ⟨h1, h2, fun n => by rw [h3 n]; simp⟩
  induction l with
  | nil => intro acc hg hn; exact ⟨hg, hn, fun n => by simp⟩
  | cons x xs ih =>
    intro acc hg hn
    have hx := hl x (List.mem_cons_self ..)
    obtain ⟨h1, h2, h3⟩ := ih (fun n h => hl n (List.mem_cons_of_mem _ h)) (dInsert acc x)
      (good_dInsert acc hg x hx) (nodup_dInsert acc hg hn x hx)
    refine ⟨h1, h2, fun n => ?_⟩
    simp only [List.foldl_cons]
    rw [h3 n, mem_dInsert acc hg x hx n]
    simp only [List.mem_cons]
    constructor
    · rintro ((h | h) | h)
      · exact Or.inl h
      · exact Or.inr (Or.inl h)
      · exact Or.inr (Or.inr h)
    · rintro (h | h | h)
      · exact Or.inl (Or.inl h)
      · exact Or.inl (Or.inr h)
      · exact Or.inr h

/-- `copy()`, pickling, `copy.copy/deepcopy`: the same keys, hence the same set -/
theorem copy_spec (s : St) (hs : Inv s) :
    Inv (copy s) ∧ (∀ n, n ∈ copy s ↔ n ∈ s) := by
  obtain ⟨_, h2, h3⟩ := fromKeys_mem s hs.good
  exact ⟨inv_of_mem s _ hs h2 h3, h3⟩

end NV.IPSet
