/-
Lemmas/C03LAbbrev.lean — `cidr_abbrev_to_verbose` on a text that carries its own prefix part, and
the zero-octet padding it applies: the padded address part denotes the same address (or is
refused alike), so an explicit prefix is never overridden by implicit_prefix=True.  Core Lean only.
-/
import NetaddrVerif.Lemmas.C03LAcc
namespace NV.C03L.Abbrev
open NV NV.Text4 NV.AddrParse NV.NetParse NV.C01L NV.C03L NV.C03L.Acc

theorem getD_append_replicate (l : List Int) (k i : Nat) : (l ++ List.replicate k 0).getD i 0 = l.getD i 0 := by
  induction l generalizing i with
  | nil =>
    simp only [List.nil_append, List.getD_nil]
    induction k generalizing i with
    | zero => simp
    | succ k ih =>
      cases i with
      | zero => simp [List.replicate_succ]
      | succ i => simp only [List.replicate_succ, List.getD_cons_succ]; exact ih i
  | cons a t ih =>
    cases i with
    | zero => simp
    | succ i => simp only [List.cons_append, List.getD_cons_succ]; exact ih i

theorem quadVal_pad (ns : List Int) (k : Nat) : quadVal (ns ++ List.replicate k 0) = quadVal ns := by
  unfold quadVal
  simp only [getD_append_replicate]

theorem inRange_pad (ns : List Int) (k : Nat) : InRange (ns ++ List.replicate k 0) ↔ InRange ns := by
  unfold InRange
  constructor
  · intro h n hn; exact h n (List.mem_append_left _ hn)
  · intro h n hn
    rcases List.mem_append.mp hn with e | e
    · exact h n e
    · rw [(List.mem_replicate.mp e).2]; omega

theorem mapM_zeros (k : Nat) : (List.replicate k ['0']).mapM (Py.pyInt 10) = some (List.replicate k (0 : Int)) := by
  induction k with
  | zero => rfl
  | succ k ih =>
    have h0 : Py.pyInt 10 ['0'] = some 0 := by decide
    rw [List.replicate_succ, List.mapM_cons, ih, h0]
    rfl

/-- the ':' test of `expand_partial_address` is implied by the `int()` calls -/
theorem addr4Spec_alt (x : List Char) :
    addr4Spec x = match (x.splitOn '.').mapM (Py.pyInt 10) with
      | none => none
      | some ns => if ns.length ≤ 4 ∧ InRange ns then some (quadVal ns) else none := by
  unfold addr4Spec
  by_cases hc : x.contains ':' = true
  · obtain ⟨p, hp, hcp⟩ := mem_splitOn '.' ':' x (List.contains_iff_mem.mp hc) (by decide)
    rw [if_pos hc, mapM_none _ _ p hp (pyInt_colon p hcp)]
  · rw [if_neg hc]
    rfl

/-- padding the address part with "0" octets up to four does not change what it denotes -/
theorem addr4Spec_pad (x : List Char) (hlen : (x.splitOn '.').length ≤ 4) :
    addr4Spec (['.'].intercalate (x.splitOn '.' ++ List.replicate (4 - (x.splitOn '.').length) ['0'])) = addr4Spec x := by
  rw [addr4Spec_alt, addr4Spec_alt x]
  have hsp : (['.'].intercalate (x.splitOn '.' ++ List.replicate (4 - (x.splitOn '.').length) ['0'])).splitOn '.' =
      x.splitOn '.' ++ List.replicate (4 - (x.splitOn '.').length) ['0'] := by
    apply List.splitOn_intercalate
    · intro l hl
      rcases List.mem_append.mp hl with e | e
      · exact not_mem_splitOn '.' x l e
      · rw [(List.mem_replicate.mp e).2]; decide
    · have := List.splitOn_ne_nil '.' x
      intro h
      exact this (List.append_eq_nil_iff.mp h).1
  rw [hsp]
  cases hm : (x.splitOn '.').mapM (Py.pyInt 10) with
  | none => rw [mapM_append_none _ _ _ hm]
  | some ns =>
    have hl := mapM_length _ _ _ hm
    rw [mapM_append _ _ _ _ _ hm (mapM_zeros _)]
    simp only
    have h1 : (ns ++ List.replicate (4 - (x.splitOn '.').length) (0 : Int)).length ≤ 4 := by
      simp only [List.length_append, List.length_replicate]; omega
    have h2 : ns.length ≤ 4 := by omega
    by_cases hr : InRange ns
    · rw [if_pos ⟨h1, (inRange_pad ns _).mpr hr⟩, if_pos ⟨h2, hr⟩, quadVal_pad]
    · have n1 : ¬ ((ns ++ List.replicate (4 - (x.splitOn '.').length) (0 : Int)).length ≤ 4 ∧
          InRange (ns ++ List.replicate (4 - (x.splitOn '.').length) 0)) := fun h => hr ((inRange_pad ns _).mp h.2)
      have n2 : ¬ (ns.length ≤ 4 ∧ InRange ns) := fun h => hr h.2
      rw [if_neg n1, if_neg n2]

theorem mem_of_mem_splitOn (sep c : Char) (s t : List Char) (ht : t ∈ s.splitOn sep) (hc : c ∈ t) : c ∈ s := by
  induction s generalizing t with
  | nil => simp at ht; subst ht; simp at hc
  | cons x xs ih =>
    rw [List.splitOn_cons_eq_if_modifyHead] at ht
    by_cases hx : (x == sep) = true
    · simp only [hx, if_true, List.mem_cons] at ht
      rcases ht with e | e
      · subst e; simp at hc
      · exact List.mem_cons_of_mem _ (ih t e hc)
    · simp only [hx, Bool.false_eq_true, if_false] at ht
      have hne := List.splitOn_ne_nil sep xs
      generalize xs.splitOn sep = ls at ht ih hne
      cases ls with
      | nil => exact absurd rfl hne
      | cons h r =>
        simp only [List.modifyHead_cons, List.mem_cons] at ht
        rcases ht with e | e
        · subst e
          rcases List.mem_cons.mp hc with e' | e'
          · subst e'; simp
          · exact List.mem_cons_of_mem _ (ih h (by simp) e')
        · exact List.mem_cons_of_mem _ (ih t (by simp [e]) hc)

/-- the padded text has the characters of the original, '.' and '0' -/
theorem mem_padded (x : List Char) (k : Nat) (c : Char)
    (h : c ∈ ['.'].intercalate (x.splitOn '.' ++ List.replicate k ['0'])) : c ∈ x ∨ c = '.' ∨ c = '0' := by
  rcases mem_intercalate '.' _ c h with e | ⟨t, ht, hc⟩
  · exact Or.inr (Or.inl e)
  · rcases List.mem_append.mp ht with e | e
    · exact Or.inl (mem_of_mem_splitOn '.' c x t e hc)
    · rw [(List.mem_replicate.mp e).2] at hc
      simp at hc; exact Or.inr (Or.inr hc)

/-- the address part of the padded text is the address part of the original, in either family -/
theorem addrOf_pad (be : Backend) (ver : Nat) (hver : VerOK ver) (x : List Char) (hx : x.contains '/' = false)
    (hc : ':' ∉ x) (hlen : (x.splitOn '.').length ≤ 4) :
    addrOf be ver (['.'].intercalate (x.splitOn '.' ++ List.replicate (4 - (x.splitOn '.').length) ['0'])) = addrOf be ver x := by
  have hpx : (['.'].intercalate (x.splitOn '.' ++ List.replicate (4 - (x.splitOn '.').length) ['0'])).contains '/' = false := by
    apply contains_false_of_not_mem
    intro hm
    rcases mem_padded x _ '/' hm with e | e | e
    · exact C01.not_mem_of_contains_false hx e
    · exact absurd e (by decide)
    · exact absurd e (by decide)
  have hpc : ':' ∉ ['.'].intercalate (x.splitOn '.' ++ List.replicate (4 - (x.splitOn '.').length) ['0']) := by
    intro hm
    rcases mem_padded x _ ':' hm with e | e | e
    · exact hc e
    · exact absurd e (by decide)
    · exact absurd e (by decide)
  rcases hver with e | e <;> subst e
  · rw [addr4_eq be _ hpx, addr4_eq be x hx, addr4Spec_pad x hlen]
  · have h64 : ¬ ((6 : Nat) = 4) := by decide
    unfold addrOf
    rw [strict6_nocolon be _ hpx hpc, strict6_nocolon be x hx hc]
    rfl

/-- `cidr_abbrev_to_verbose` on a text with a '/': unchanged, or (numeral prefix in 0..32, no
    ':', at most four '.'-pieces before the '/') the address part padded with "0" octets -/
theorem abbrev_slash (s : List Char) (hs : s.contains '/' = true) :
    cidrAbbrevToVerbose s = s ∨
      ∃ T, splitSlash s = ((splitSlash s).1, some T) ∧ (∃ q, Py.pyInt 10 T = some q) ∧ ':' ∉ s ∧
        ((splitSlash s).1.splitOn '.').length ≤ 4 ∧
        cidrAbbrevToVerbose s = ['.'].intercalate ((splitSlash s).1.splitOn '.' ++
          List.replicate (4 - ((splitSlash s).1.splitOn '.').length) ['0']) ++ '/' :: T := by
  have hm : '/' ∈ s := List.contains_iff_mem.mp hs
  have hpi := pyInt_slash s hm
  have hsp : splitSlash s = (s.takeWhile (· != '/'), some ((s.dropWhile (· != '/')).drop 1)) := by
    unfold splitSlash; rw [if_pos hs]
  generalize hT : (s.dropWhile (· != '/')).drop 1 = T at hsp
  unfold cidrAbbrevToVerbose
  by_cases h0 : (s.contains ':' || s == []) = true
  · left; rw [if_pos h0]
  · rw [if_neg h0]
    have hcol : ':' ∉ s := by
      intro hmem
      apply h0
      rw [List.contains_iff_mem.mpr hmem]; rfl
    simp only [hpi, hsp]
    cases hq : Py.pyInt 10 T with
    | none => left; simp
    | some q =>
      by_cases hr : (0 ≤ q && q ≤ 32) = true
      · simp only [hr, Bool.not_true, Bool.false_eq_true, if_false]
        by_cases hl : ((s.takeWhile (· != '/')).splitOn '.').length > 4
        · left; rw [if_pos hl]
        · right
          rw [if_neg hl]
          refine ⟨T, rfl, ⟨q, hq⟩, hcol, by omega, ?_⟩
          simp
      · left
        have : (0 ≤ q && q ≤ 32) = false := by
          cases h : (0 ≤ q && q ≤ 32) with
          | true => exact absurd h hr
          | false => rfl
        simp [this]

end NV.C03L.Abbrev
