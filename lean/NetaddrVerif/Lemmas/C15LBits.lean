/-
Lemmas/C15LBits.lean — binary numerals: `padBits n v` (n binary digits of v, most significant
first), its value / length / regrouping lemmas, `Nat.toDigits 2`, and the byte-chunk
construction of `wordBits`.  Core only.
-/
import NetaddrVerif.Lemmas.C15LBytes
import NetaddrVerif.Lemmas.C15LPyInt
namespace NV.Codec
open NV.Py NV.PyL

/-- the n-digit zero-padded binary spelling of v (mod 2^n), most significant digit first -/
def padBits (n v : Nat) : List Char := (byteBitsLE n v).reverse

theorem bit01_mod (v : Nat) : bit01 (v % 2) = bit01 v := by simp [bit01]

theorem byteBitsLE_eq (n v : Nat) : byteBitsLE n v = (wordsLoop 1 n v).map bit01 := by
  induction n generalizing v with
  | zero => rfl
  | succ n ih =>
    simp only [byteBitsLE, wordsLoop, List.map_cons, ih]
    have : v &&& 2 ^ 1 - 1 = v % 2 := Nat.and_two_pow_sub_one_eq_mod v 1
    rw [this, bit01_mod]

theorem padBits_length (n v : Nat) : (padBits n v).length = n := by
  simp [padBits, byteBitsLE_eq, wordsLoop_length]

theorem padBits_add (a b v : Nat) : padBits (a + b) v = padBits a (v / 2 ^ b) ++ padBits b v := by
  simp only [padBits, byteBitsLE_eq]
  rw [Nat.add_comm a b, wordsLoop_add, List.map_append, List.reverse_append, Nat.one_mul]

theorem padBits_mod (n v : Nat) : padBits n (v % 2 ^ n) = padBits n v := by
  simp only [padBits, byteBitsLE_eq]
  have := wordsLoop_mod 1 n v
  rw [Nat.one_mul] at this
  rw [this]

theorem padBits_zero_val (n : Nat) : padBits n 0 = List.replicate n '0' := by
  induction n with
  | zero => rfl
  | succ n ih =>
    have := padBits_add n 1 0
    simp only [Nat.zero_div] at this
    rw [this, ih]
    show _ ++ ['0'] = _
    rw [List.replicate_succ']

/-- leading zeros: a value below 2^n written with m ≥ n digits -/
theorem padBits_zeros (n m v : Nat) (hv : v < 2 ^ n) (hnm : n ≤ m) :
    padBits m v = List.replicate (m - n) '0' ++ padBits n v := by
  have e : m = (m - n) + n := by omega
  conv => lhs; rw [e, padBits_add]
  rw [Nat.div_eq_of_lt hv, padBits_zero_val]

theorem is01_bit01 (n : Nat) : is01 (bit01 n) = true := by
  unfold bit01 is01; split <;> rfl

theorem padBits_01 (n v : Nat) : ∀ c ∈ padBits n v, is01 c = true := by
  intro c hc
  simp only [padBits, byteBitsLE_eq, List.mem_reverse, List.mem_map] at hc
  obtain ⟨x, _, rfl⟩ := hc
  exact is01_bit01 x

theorem digitVal2_of_is01 (c : Char) (h : is01 c = true) : ∃ d, digitVal 2 c = some d := by
  simp only [is01, Bool.or_eq_true, beq_iff_eq] at h
  rcases h with rfl | rfl
  · exact ⟨0, by decide⟩
  · exact ⟨1, by decide⟩

theorem digitsNat_append (base : Nat) (s t : List Char) (acc : Nat) :
    digitsNat base (s ++ t) acc = digitsNat base t (digitsNat base s acc) := by
  simp [digitsNat, List.foldl_append]

theorem digitVal2_bit01 (n : Nat) : (digitVal 2 (bit01 n)).getD 0 = n % 2 := by
  unfold bit01
  by_cases h : n % 2 = 1
  · rw [if_pos h, h]; decide
  · rw [if_neg h]; have : n % 2 = 0 := by omega
    rw [this]; decide

/-- value of the padded spelling -/
theorem digitsNat_padBits (n v acc : Nat) : digitsNat 2 (padBits n v) acc = acc * 2 ^ n + v % 2 ^ n := by
  induction n generalizing v acc with
  | zero => simp [padBits, byteBitsLE, digitsNat, Nat.mod_one]
  | succ n ih =>
    rw [padBits_add n 1 v, digitsNat_append, ih]
    show digitsNat 2 [bit01 v] _ = _
    simp only [digitsNat, List.foldl_cons, List.foldl_nil, digitVal2_bit01, Nat.pow_one]
    have hp : 2 ^ (n + 1) = 2 * 2 ^ n := by rw [Nat.pow_succ, Nat.mul_comm]
    have h1 : v % (2 * 2 ^ n) = v % 2 + 2 * (v / 2 % 2 ^ n) := Nat.mod_mul
    rw [hp, h1]
    generalize 2 ^ n = P
    rw [Nat.add_mul, Nat.mul_assoc, Nat.mul_comm P 2]
    omega

theorem digitVal_lt (base : Nat) (c : Char) (d : Nat) (h : digitVal base c = some d) : d < base := by
  unfold digitVal at h
  simp only at h
  split at h
  · split at h
    · injection h with h; omega
    · cases h
  · cases h

theorem digitsNat_lt (s : List Char) (acc : Nat) : digitsNat 2 s acc < (acc + 1) * 2 ^ s.length := by
  induction s generalizing acc with
  | nil => simp [digitsNat]
  | cons c t ih =>
    simp only [digitsNat, List.foldl_cons, List.length_cons]
    have hd : (digitVal 2 c).getD 0 < 2 := by
      cases h : digitVal 2 c with
      | none => simp
      | some d => simpa using digitVal_lt 2 c d h
    have := ih (acc * 2 + (digitVal 2 c).getD 0)
    simp only [digitsNat] at this
    refine Nat.lt_of_lt_of_le this ?_
    rw [Nat.pow_succ, Nat.mul_comm (2 ^ t.length) 2, ← Nat.mul_assoc]
    exact Nat.mul_le_mul_right _ (by omega)

/-! ### `Nat.toDigits 2` (Python's `bin`) -/

theorem toDigits2_spec (v : Nat) : ∀ acc,
    (∀ c ∈ Nat.toDigits 2 v, is01 c = true) ∧
    digitsNat 2 (Nat.toDigits 2 v) acc = acc * 2 ^ (Nat.toDigits 2 v).length + v ∧
    (∀ w, (Nat.toDigits 2 v).length ≤ w ↔ (v < 2 ^ w ∧ 1 ≤ w)) := by
  induction v using Nat.strongRecOn with
  | ind v ih =>
    intro acc
    rw [Nat.toDigits_eq_if (by decide)]
    by_cases h : v < 2
    · simp only [h, if_true]
      have hv : v = 0 ∨ v = 1 := by omega
      refine ⟨?_, ?_, ?_⟩
      · intro c hc; simp only [List.mem_singleton] at hc; subst hc
        rcases hv with rfl | rfl <;> rfl
      · rcases hv with rfl | rfl <;> simp [digitsNat] <;> decide
      · intro w
        simp only [List.length_singleton]
        constructor
        · intro hw; refine ⟨?_, hw⟩
          have : 2 ^ 1 ≤ 2 ^ w := Nat.pow_le_pow_right (by decide) hw
          omega
        · intro hw; exact hw.2
    · simp only [h, if_false]
      have hlt : v / 2 < v := Nat.div_lt_self (by omega) (by decide)
      obtain ⟨i1, i2, i3⟩ := ih (v / 2) hlt acc
      refine ⟨?_, ?_, ?_⟩
      · intro c hc
        simp only [List.mem_append, List.mem_singleton] at hc
        rcases hc with hc | rfl
        · exact i1 c hc
        · have : v % 2 = 0 ∨ v % 2 = 1 := by omega
          rcases this with e | e <;> rw [e] <;> rfl
      · rw [digitsNat_append, i2]
        simp only [digitsNat, List.foldl_cons, List.foldl_nil, List.length_append, List.length_singleton, Nat.pow_succ]
        have hd : (digitVal 2 (Nat.digitChar (v % 2))).getD 0 = v % 2 := by
          have : v % 2 = 0 ∨ v % 2 = 1 := by omega
          rcases this with e | e <;> rw [e] <;> decide
        rw [hd, Nat.add_mul, Nat.mul_assoc]
        omega
      · intro w
        simp only [List.length_append, List.length_singleton]
        cases w with
        | zero => simp
        | succ w =>
          rw [Nat.add_le_add_iff_right, i3 w, Nat.pow_succ]
          constructor
          · rintro ⟨a, b⟩; exact ⟨by omega, by omega⟩
          · rintro ⟨a, _⟩
            refine ⟨by omega, ?_⟩
            cases w with
            | zero => simp at a; omega
            | succ w => omega

end NV.Codec

namespace NV.Codec
open NV.Py NV.PyL

/-! ### the byte-chunk construction of `wordBits` -/

theorem bytesToBits_eq (b : Nat) : bytesToBits b = padBits 8 b := rfl

theorem and255' (x : Nat) : x &&& 255 = x % 2 ^ 8 := Nat.and_two_pow_sub_one_eq_mod x 8

/-- the chunks, most significant first, spell the word with 8·(number of chunks) digits, and
    that many digits are enough for the word -/
theorem wordChunks_spec : ∀ fuel word, word ≤ fuel →
    ((wordChunks fuel word).reverse.flatten = padBits (8 * (wordChunks fuel word).length) word ∧
     word < 2 ^ (8 * (wordChunks fuel word).length) ∧
     ((wordChunks fuel word) = [] ↔ word = 0)) := by
  intro fuel
  induction fuel with
  | zero =>
    intro word h
    have : word = 0 := by omega
    subst this; simp [wordChunks, padBits, byteBitsLE]
  | succ f ih =>
    intro word h
    by_cases h0 : word = 0
    · subst h0; simp [wordChunks, padBits, byteBitsLE]
    · have hq : word >>> 8 = word / 2 ^ 8 := Nat.shiftRight_eq_div_pow word 8
      have hle : word / 2 ^ 8 ≤ f := by
        have : word / 2 ^ 8 < word := Nat.div_lt_self (by omega) (by decide)
        omega
      obtain ⟨i1, i2, _⟩ := ih (word / 2 ^ 8) hle
      simp only [wordChunks, h0, if_false, hq, List.reverse_cons, List.flatten_append, List.flatten_cons,
        List.flatten_nil, List.append_nil, List.length_cons, i1, bytesToBits_eq, and255']
      generalize (wordChunks f (word / 2 ^ 8)).length = n at *
      refine ⟨?_, ?_, by simp⟩
      · rw [Nat.mul_succ, padBits_add, padBits_mod]
      · rw [Nat.mul_succ, Nat.pow_add]
        exact (Nat.div_lt_iff_lt_mul (by decide : 0 < 2 ^ 8)).mp i2

theorem drop_replicate_append (k n : Nat) (x : List Char) (h : k ≤ n) :
    (List.replicate n '0' ++ x).drop k = List.replicate (n - k) '0' ++ x := by
  rw [List.drop_append]
  simp only [List.drop_replicate, List.length_replicate]
  have : k - n = 0 := by omega
  rw [this, List.drop_zero]

/-- one word of `int_to_bits` is the word's ws-digit zero-padded binary spelling -/
theorem wordBits_spec (ws word : Nat) (hw : word < 2 ^ ws) : wordBits ws word = padBits ws word := by
  obtain ⟨c1, c2, c3⟩ := wordChunks_spec word word (Nat.le_refl _)
  unfold wordBits
  simp only [c1]
  generalize hL : (wordChunks word word).length = L at *
  by_cases h0 : word = 0
  · have hnil := c3.mpr h0
    rw [hnil] at hL; simp only [List.length_nil] at hL; subst hL
    subst h0
    simp only [padBits, byteBitsLE, List.reverse_nil, List.isEmpty_nil, if_true]
    unfold takeLast
    by_cases hz : ws = 0
    · subst hz; simp [byteBitsLE]
    · simp only [hz, if_false, List.length_append, List.length_replicate]
      have e : ws + ws - ws = (List.replicate ws '0').length := by simp
      rw [e, List.drop_left]
      exact (padBits_zero_val ws).symm
  · have hLpos : 0 < L := by
      cases L with
      | zero =>
        have : wordChunks word word = [] := List.length_eq_zero_iff.mp hL
        exact absurd (c3.mp this) h0
      | succ n => omega
    have hne : (padBits (8 * L) word).isEmpty = false := by
      cases hp : padBits (8 * L) word with
      | nil =>
        have := padBits_length (8 * L) word
        rw [hp] at this; simp at this; omega
      | cons a t => rfl
    simp only [hne, Bool.false_eq_true, if_false]
    have hwpos : 0 < ws := by
      cases ws with
      | zero => simp at hw; omega
      | succ n => omega
    unfold takeLast
    simp only [show ws ≠ 0 by omega, if_false, List.length_append, List.length_replicate, padBits_length]
    have e : ws + 8 * L - ws = 8 * L := by omega
    rw [e]
    by_cases hcmp : 8 * L ≤ ws
    · rw [drop_replicate_append _ _ _ hcmp]
      exact (padBits_zeros (8 * L) ws word c2 hcmp).symm
    · have hcmp' : ws ≤ 8 * L := by omega
      rw [padBits_zeros ws (8 * L) word hw hcmp', ← List.append_assoc, List.replicate_append_replicate]
      have e3 : ws + (8 * L - ws) = 8 * L := by omega
      rw [e3, drop_replicate_append _ _ _ (Nat.le_refl _), Nat.sub_self]
      rfl

end NV.Codec

namespace NV.Codec
open NV.Py NV.PyL

/-! ### regrouping words into one numeral; removing separators -/

/-- the padded spellings of the words of v, most significant first, concatenated = the padded
    spelling of v -/
theorem flatten_padBits_words (ws n v : Nat) :
    ((wordsLoop ws n v).reverse.map (padBits ws)).flatten = padBits (ws * n) v := by
  induction n generalizing v with
  | zero => simp [wordsLoop, padBits, byteBitsLE]
  | succ n ih =>
    simp only [wordsLoop, List.reverse_cons, List.map_append, List.flatten_append, List.map_cons,
      List.map_nil, List.flatten_cons, List.flatten_nil, List.append_nil, ih,
      Nat.and_two_pow_sub_one_eq_mod, Nat.shiftRight_eq_div_pow]
    rw [Nat.mul_succ, padBits_add, padBits_mod]

theorem replaceDelAux_single (c : Char) : ∀ (s : List Char) (fuel : Nat), s.length ≤ fuel →
    replaceDelAux [c] fuel s = s.filter (fun x => x != c) := by
  intro s
  induction s with
  | nil => intro fuel _; cases fuel <;> simp [replaceDelAux]
  | cons x t ih =>
    intro fuel h
    cases fuel with
    | zero => simp at h
    | succ f =>
      have hl : t.length ≤ f := by simpa using h
      simp only [replaceDelAux, List.isPrefixOf, Bool.and_true, List.length_singleton, List.drop_succ_cons,
        List.drop_zero, List.filter_cons]
      by_cases hc : c = x
      · subst hc; simp [ih f hl]
      · have h1 : (c == x) = false := by simpa using hc
        have h2 : (x != c) = true := by simp; exact fun e => hc e.symm
        simp [h1, h2, ih f hl]

theorem replaceDel_single (c : Char) (s : List Char) : replaceDel [c] s = s.filter (fun x => x != c) := by
  simp [replaceDel, replaceDelAux_single c s s.length (Nat.le_refl _)]

theorem filter_intercalate (c : Char) (ls : List (List Char)) (h : ∀ l ∈ ls, c ∉ l) :
    ([c].intercalate ls).filter (fun x => x != c) = ls.flatten := by
  have hf : ∀ l ∈ ls, l.filter (fun x => x != c) = l := by
    intro l hl
    rw [List.filter_eq_self]
    intro a ha
    have : a ≠ c := fun e => h l hl (e ▸ ha)
    simpa using this
  induction ls with
  | nil => simp [List.intercalate]
  | cons x t ih =>
    cases t with
    | nil => simp [List.intercalate, List.intersperse, hf x (by simp)]
    | cons y t' =>
      rw [List.intercalate_cons_cons, List.filter_append, List.filter_append,
        ih (fun l hl => h l (by simp [hl])) (fun l hl => hf l (by simp [hl])), hf x (by simp)]
      simp

/-- strip the separator from the joined words -/
theorem replaceDel_intercalate (sep : List Char) (ls : List (List Char))
    (hsep : sep = [] ∨ ∃ c, sep = [c] ∧ ∀ l ∈ ls, c ∉ l) :
    (if sep ≠ [] then replaceDel sep (sep.intercalate ls) else sep.intercalate ls) = ls.flatten := by
  rcases hsep with rfl | ⟨c, rfl, hc⟩
  · simp only [ne_eq, not_true_eq_false, if_false]
    induction ls with
    | nil => simp [List.intercalate]
    | cons x t ih =>
      cases t with
      | nil => simp [List.intercalate, List.intersperse]
      | cons y t' => rw [List.intercalate_cons_cons, ih]; simp
  · simp only [ne_eq, List.cons_ne_nil, not_false_eq_true, if_true]
    rw [replaceDel_single, filter_intercalate c ls hc]

end NV.Codec
