/-
Lemmas/C17LRange.lean — `_iprange_to_glob`: what it prints, when the result is a valid glob, and
that it then denotes exactly the range it was given.
-/
import NetaddrVerif.Lemmas.C17LConv
namespace NV.C17
open NV NV.Glob

/-- the kind of octet `_iprange_to_glob` emits for the octet pair `(a, b)` -/
def classify (a b : Nat) : Oct :=
  if a = b then .lit a else if a = 0 ∧ b = 255 then .star else .hyp a b

def cls (p : Nat × Nat) : Oct := classify p.1 p.2

def printOct : Oct → List Char
  | .lit n => dec n
  | .hyp a b => dec a ++ '-' :: dec b
  | .star => ['*']

theorem cls_lo (p : Nat × Nat) : (cls p).lo = p.1 := by
  unfold cls classify; split
  · rfl
  · split
    · next h => simp [Oct.lo, h.1]
    · rfl

theorem cls_hi (p : Nat × Nat) : (cls p).hi = p.2 := by
  unfold cls classify; split
  · next h => simp [Oct.hi, h]
  · split
    · next h => simp [Oct.hi, h.2]
    · rfl

/-- a successful step appends the printed octet -/
theorem rangeStep_tokens (st st' : GSt) (a b : Nat) (h : rangeStep st a b = .ok st') :
    st'.tokens = st.tokens ++ [printOct (cls (a, b))] := by
  unfold rangeStep at h
  unfold cls classify
  by_cases h1 : a = b
  · simp only [h1, if_true, Except.ok.injEq] at h ⊢; subst h; simp [printOct]
  · by_cases h2 : a = 0 ∧ b = 255
    · obtain ⟨rfl, rfl⟩ := h2
      simp only [show ¬ ((0:Nat) = 255) by decide, if_false, and_self, if_true, Except.ok.injEq] at h ⊢
      subst h; simp [printOct]
    · simp only [h1, if_false, h2] at h ⊢
      by_cases h3 : st.ast = true
      · simp [h3] at h
      · by_cases h4 : st.hyph = true
        · simp [h3, h4] at h
        · simp only [h3, h4, Bool.not_false, if_true, Except.ok.injEq] at h; subst h; simp [printOct]

theorem rangeLoop_tokens : ∀ (pairs : List (Nat × Nat)) (st st' : GSt), rangeLoop st pairs = .ok st' →
    st'.tokens = st.tokens ++ pairs.map (fun p => printOct (cls p)) := by
  intro pairs
  induction pairs with
  | nil => intro st st' h; simp only [rangeLoop, Except.ok.injEq] at h; subst h; simp
  | cons p r ih =>
    intro st st' h
    obtain ⟨a, b⟩ := p
    simp only [rangeLoop] at h
    cases hs : rangeStep st a b with
    | error e => simp [hs] at h
    | ok st1 =>
      simp only [hs] at h
      rw [ih st1 st' h, rangeStep_tokens st st1 a b hs]
      simp

theorem rangeLoop_err : ∀ (pairs : List (Nat × Nat)) (st : GSt) (e : Err), rangeLoop st pairs = .error e →
    e = .addrConversion := by
  intro pairs
  induction pairs with
  | nil => intro st e h; simp [rangeLoop] at h
  | cons p r ih =>
    intro st e h
    obtain ⟨a, b⟩ := p
    simp only [rangeLoop] at h
    cases hs : rangeStep st a b with
    | error e' =>
      simp only [hs, Except.error.injEq] at h; subst h
      unfold rangeStep at hs
      repeat' split at hs
      all_goals first | (simp only [Except.error.injEq] at hs; exact hs.symm) | (simp at hs)
    | ok st1 => simp only [hs] at h; exact ih st1 e h

/-- once only asterisks remain the loop cannot fail -/
theorem rangeLoop_stars : ∀ (pairs : List (Nat × Nat)) (st : GSt), (pairs.map cls).all Oct.isStar = true →
    ∃ st', rangeLoop st pairs = .ok st' := by
  intro pairs
  induction pairs with
  | nil => intro st _; exact ⟨st, rfl⟩
  | cons p r ih =>
    intro st h
    obtain ⟨a, b⟩ := p
    simp only [List.map_cons, List.all_cons, Bool.and_eq_true] at h
    have hc : a ≠ b ∧ (a = 0 ∧ b = 255) := by
      have := h.1
      unfold cls classify at this
      by_cases h1 : a = b
      · simp [h1, Oct.isStar] at this
      · by_cases h2 : a = 0 ∧ b = 255
        · exact ⟨h1, h2⟩
        · simp [h1, h2, Oct.isStar] at this
    obtain ⟨_, rfl, rfl⟩ := hc
    simp only [rangeLoop, rangeStep, show ¬ ((0:Nat) = 255) by decide, if_false, and_self, if_true]
    exact ih _ h.2

/-- literals, one hyphenated octet, asterisks: the loop succeeds -/
theorem rangeLoop_shape : ∀ (pairs : List (Nat × Nat)) (toks : List (List Char)),
    shapeOk (pairs.map cls) = true → ∃ st', rangeLoop ⟨toks, false, false⟩ pairs = .ok st' := by
  intro pairs
  induction pairs with
  | nil => intro toks _; exact ⟨_, rfl⟩
  | cons p r ih =>
    intro toks h
    obtain ⟨a, b⟩ := p
    simp only [List.map_cons] at h
    by_cases h1 : a = b
    · have hc : cls (a, b) = .lit a := by simp [cls, classify, h1]
      rw [hc] at h
      simp only [shapeOk] at h
      simp only [rangeLoop, rangeStep, h1, if_true]
      exact ih _ h
    · by_cases h2 : a = 0 ∧ b = 255
      · obtain ⟨rfl, rfl⟩ := h2
        have hc : cls (0, 255) = .star := by decide
        rw [hc] at h
        simp only [shapeOk] at h
        simp only [rangeLoop, rangeStep, show ¬ ((0:Nat) = 255) by decide, if_false, and_self, if_true]
        exact rangeLoop_stars r _ h
      · have hc : cls (a, b) = .hyp a b := by simp [cls, classify, h1, h2]
        rw [hc] at h
        simp only [shapeOk] at h
        simp only [rangeLoop, rangeStep, h1, if_false, h2, Bool.not_false, if_true]
        exact rangeLoop_stars r _ h

/-! ### printing and reading back octets below 256 -/

theorem dec_no_hyphen {n : Nat} (h : n < 256) : '-' ∉ dec n := plain_no_hyphen (plain_dec n h)
theorem dec_no_dot {n : Nat} (h : n < 256) : '.' ∉ dec n := plain_no_dot (plain_dec n h)

theorem print_no_dot (a b : Nat) (ha : a < 256) (hb : b < 256) : '.' ∉ printOct (cls (a, b)) := by
  unfold cls classify
  split
  · exact dec_no_dot ha
  · split
    · decide
    · simp only [printOct, List.mem_append, List.mem_cons, not_or]
      exact ⟨dec_no_dot ha, by decide, dec_no_dot hb⟩

/-- reading back what `_iprange_to_glob` printed for one octet pair -/
theorem parse_print (a b : Nat) (ha : a < 256) (hb : b < 256) :
    parseOct (printOct (cls (a, b))) = if a ≤ b then some (cls (a, b)) else none := by
  unfold cls classify
  by_cases h1 : a = b
  · subst h1
    simp only [if_true, printOct, Nat.le_refl]
    unfold parseOct
    simp only [plain_ne_star (plain_dec a ha), if_false, List.splitOn_eq_singleton (dec_no_hyphen ha),
      plain_dec a ha, numVal_dec a ha, true_and]
    have : a ≤ 255 := by omega
    simp [this]
  · by_cases h2 : a = 0 ∧ b = 255
    · obtain ⟨rfl, rfl⟩ := h2
      simp only [h1, if_false, and_self, if_true, printOct]
      rfl
    · simp only [h1, if_false, h2, printOct]
      unfold parseOct
      have hne : dec a ++ '-' :: dec b ≠ ['*'] := by
        intro e
        have : '-' ∈ dec a ++ '-' :: dec b := by simp
        rw [e] at this; revert this; decide
      simp only [hne, if_false, List.splitOn_append_cons_self_of_not_mem (dec_no_hyphen ha),
        List.splitOn_eq_singleton (dec_no_hyphen hb), plain_dec a ha, plain_dec b hb, numVal_dec a ha,
        numVal_dec b hb, true_and]
      by_cases hlt : a < b
      · have h255 : b ≤ 255 := by omega
        have : a ≤ b := by omega
        simp [hlt, h255, this]
      · have : ¬ a ≤ b := by omega
        simp [hlt, this]

theorem octets4_lt (v : Nat) : ∀ x ∈ octets4 v, x < 256 := by
  intro x hx
  simp only [octets4, List.mem_cons, List.not_mem_nil, or_false] at hx
  rcases hx with rfl | rfl | rfl | rfl <;> omega

/-! ### the single-glob attempt -/

/-- the glob text `_iprange_to_glob` prints when its loop succeeds -/
def joined (lo hi : Nat) : List Char :=
  ['.'].intercalate (((octets4 lo).zip (octets4 hi)).map (fun p => printOct (cls p)))

/-- the octet kinds of the pair `(lo, hi)` -/
def kinds (lo hi : Nat) : List Oct := ((octets4 lo).zip (octets4 hi)).map cls

/-- every octet of `lo` is ≤ the corresponding octet of `hi` -/
def ordered (lo hi : Nat) : Prop := ∀ p ∈ (octets4 lo).zip (octets4 hi), p.1 ≤ p.2

instance (lo hi : Nat) : Decidable (ordered lo hi) := by unfold ordered; infer_instance

theorem globParse_joined (lo hi : Nat) :
    globParse (joined lo hi) = if ordered lo hi ∧ shapeOk (kinds lo hi) = true then some (kinds lo hi) else none := by
  have b0 : lo / 2 ^ 24 % 256 < 256 := by omega
  have b1 : lo / 2 ^ 16 % 256 < 256 := by omega
  have b2 : lo / 2 ^ 8 % 256 < 256 := by omega
  have b3 : lo % 256 < 256 := by omega
  have c0 : hi / 2 ^ 24 % 256 < 256 := by omega
  have c1 : hi / 2 ^ 16 % 256 < 256 := by omega
  have c2 : hi / 2 ^ 8 % 256 < 256 := by omega
  have c3 : hi % 256 < 256 := by omega
  unfold globParse joined kinds ordered octets4
  simp only [List.zip_cons_cons, List.zip_nil_right, List.map_cons, List.map_nil]
  rw [List.splitOn_intercalate]
  · simp only [mapOpt, parse_print _ _ b0 c0, parse_print _ _ b1 c1, parse_print _ _ b2 c2, parse_print _ _ b3 c3,
      List.mem_cons, List.not_mem_nil, or_false, forall_eq_or_imp, forall_eq]
    by_cases h0 : lo / 2 ^ 24 % 256 ≤ hi / 2 ^ 24 % 256
    · by_cases h1 : lo / 2 ^ 16 % 256 ≤ hi / 2 ^ 16 % 256
      · by_cases h2 : lo / 2 ^ 8 % 256 ≤ hi / 2 ^ 8 % 256
        · by_cases h3 : lo % 256 ≤ hi % 256
          · simp [h0, h1, h2, h3]
          · simp [h0, h1, h2, h3]
        · simp [h0, h1, h2]
      · simp [h0, h1]
    · simp [h0]
  · intro l hl
    simp only [List.mem_cons, List.not_mem_nil, or_false] at hl
    rcases hl with e | e | e | e <;> subst e
    · exact print_no_dot _ _ b0 c0
    · exact print_no_dot _ _ b1 c1
    · exact print_no_dot _ _ b2 c2
    · exact print_no_dot _ _ b3 c3
  · simp

theorem iprangeToGlob_cases (lo hi : Nat) :
    iprangeToGlob lo hi = .ok (joined lo hi) ∨ iprangeToGlob lo hi = .error .addrConversion := by
  unfold iprangeToGlob
  cases h : rangeLoop ⟨[], false, false⟩ ((octets4 lo).zip (octets4 hi)) with
  | ok st =>
    left
    have := rangeLoop_tokens _ _ _ h
    simp only [List.nil_append] at this
    simp only [this, joined]
  | error e => right; rw [rangeLoop_err _ _ _ h]

theorem iprangeToGlob_shape (lo hi : Nat) (h : shapeOk (kinds lo hi) = true) :
    iprangeToGlob lo hi = .ok (joined lo hi) := by
  obtain ⟨st, hst⟩ := rangeLoop_shape ((octets4 lo).zip (octets4 hi)) [] h
  rcases iprangeToGlob_cases lo hi with h' | h'
  · exact h'
  · unfold iprangeToGlob at h'; rw [hst] at h'; exact absurd h' (by simp)

/-- the single-glob attempt succeeds exactly on ordered, glob-shaped octet pairs -/
theorem singleGlob_eq (lo hi : Nat) :
    singleGlob lo hi = if ordered lo hi ∧ shapeOk (kinds lo hi) = true then .ok (joined lo hi)
      else .error .addrConversion := by
  unfold singleGlob
  by_cases hc : ordered lo hi ∧ shapeOk (kinds lo hi) = true
  · have hv : validGlob (joined lo hi) = true :=
      (validGlob_iff_parse _).2 ⟨kinds lo hi, by rw [globParse_joined]; simp [hc]⟩
    simp [iprangeToGlob_shape lo hi hc.2, hv, hc]
  · simp only [hc, if_false]
    rcases iprangeToGlob_cases lo hi with h' | h'
    · have hv : validGlob (joined lo hi) = false := by
        cases hh : validGlob (joined lo hi) with
        | false => rfl
        | true =>
          obtain ⟨os, hos⟩ := (validGlob_iff_parse _).1 hh
          rw [globParse_joined] at hos
          simp [hc] at hos
      simp [h', hv]
    · simp [h']

theorem quad_octets (v : Nat) (h : v < 2 ^ 32) :
    quad (v / 2 ^ 24 % 256) (v / 2 ^ 16 % 256) (v / 2 ^ 8 % 256) (v % 256) = v := by
  unfold quad; omega

/-- when the attempt succeeds the glob denotes exactly `[lo, hi]` -/
theorem joined_denotes (lo hi : Nat) (hlo : lo < 2 ^ 32) (hhi : hi < 2 ^ 32)
    (hc : ordered lo hi ∧ shapeOk (kinds lo hi) = true) :
    validGlob (joined lo hi) = true ∧ globToIptuple (joined lo hi) = .ok (lo, hi) := by
  have hp : globParse (joined lo hi) = some (kinds lo hi) := by rw [globParse_joined]; simp [hc]
  have hv : validGlob (joined lo hi) = true := (validGlob_iff_parse _).2 ⟨_, hp⟩
  refine ⟨hv, ?_⟩
  obtain ⟨o0, o1, o2, o3, e, _, _, _, _, _, h1, h2⟩ := conv_of_parse _ _ hp
  simp only [kinds, octets4, List.zip_cons_cons, List.zip_nil_right, List.map_cons, List.map_nil,
    List.cons.injEq, and_true] at e
  obtain ⟨rfl, rfl, rfl, rfl⟩ := e
  simp only [cls_lo, cls_hi, quad_octets lo hlo, quad_octets hi hhi] at h1 h2
  simp only [globToIptuple, hv, Bool.not_true, Bool.false_eq_true, if_false, h1, h2]

end NV.C17
