/-
Lemmas/C17LNum.lean — numerals: what `Py.pyInt 10` and the model's own octet reader return on
plain decimal numerals; finite tables for the decimal spelling of 0..255.
-/
import NetaddrVerif.Model.Glob
namespace NV.C17
open NV NV.Glob

/-- value of a digit string read left to right -/
def numVal (t : List Char) : Nat := t.foldl (fun a c => a * 10 + (c.toNat - 48)) 0

/-- plain decimal numeral: non-empty, ASCII digits only, no leading zero (except `0` itself) -/
def plainNum (t : List Char) : Bool :=
  if t.isEmpty || t.any (fun c => !isDec c) then false
  else if t.length > 1 && t.head? == some '0' then false
  else true

theorem any_not_dec (t : List Char) : t.any (fun c => !isDec c) = !t.all isDec := by
  induction t with
  | nil => rfl
  | cons c r ih => simp [ih, Bool.not_and]

theorem plainNum_iff (t : List Char) :
    plainNum t = true ↔ t ≠ [] ∧ t.all isDec = true ∧ ¬ (t.length > 1 ∧ t.head? = some '0') := by
  unfold plainNum
  rw [any_not_dec]
  cases t with
  | nil => simp
  | cons c r =>
    cases h : (c :: r).all isDec <;> cases hl : decide ((c :: r).length > 1) <;>
      cases hh : ((c :: r).head? == some '0') <;> simp_all

theorem numeralOk_eq (t : List Char) : numeralOk t = (if t == ['*'] then true else plainNum t) := rfl

theorem isDec_iff (c : Char) : isDec c = true ↔ 48 ≤ c.toNat ∧ c.toNat ≤ 57 := by
  simp only [isDec, Bool.and_eq_true, decide_eq_true_eq, Char.le_def]
  have h0 : ('0' : Char).val.toNat = 48 := rfl
  have h9 : ('9' : Char).val.toNat = 57 := rfl
  simp only [UInt32.le_iff_toNat_le, h0, h9]
  rfl

theorem digitVal_dec (c : Char) (h : isDec c = true) : Py.digitVal 10 c = some (c.toNat - 48) := by
  have h' := (isDec_iff c).1 h
  have hc : ('0' ≤ c ∧ c ≤ '9') := by
    simpa [isDec] using h
  simp only [Py.digitVal, hc, and_self, if_true]
  have : ('0' : Char).toNat = 48 := rfl
  rw [this]
  have : c.toNat - 48 < 10 := by omega
  simp [this]

theorem digitsVal_dec (t : List Char) (ht : t.all isDec = true) :
    ∀ acc pd, Py.digitsVal 10 t acc pd =
      if t = [] then (if pd then some acc else none)
      else some (t.foldl (fun a c => a * 10 + (c.toNat - 48)) acc) := by
  induction t with
  | nil => intro acc pd; simp [Py.digitsVal]
  | cons c r ih =>
    intro acc pd
    simp only [List.all_cons, Bool.and_eq_true] at ht
    have hc := (isDec_iff c).1 ht.1
    have hne : (c == '_') = false := by
      rw [beq_eq_false_iff_ne]; intro e; subst e; revert hc; decide
    simp only [Py.digitsVal, hne, digitVal_dec c ht.1, ih ht.2]
    by_cases hr : r = []
    · subst hr; simp
    · simp [hr]

theorem not_isWs_of_isDec (c : Char) (h : isDec c = true) : Py.isWs c = false := by
  have hc := (isDec_iff c).1 h
  unfold Py.isWs
  have ne : ∀ d : Char, d.toNat < 48 → (c == d) = false := by
    intro d hd; rw [beq_eq_false_iff_ne]; intro e; subst e; omega
  simp [ne ' ' (by decide), ne '\t' (by decide), ne '\n' (by decide), ne '\r' (by decide),
    ne '\x0b' (by decide), ne '\x0c' (by decide)]

theorem stripWs_dec (t : List Char) (ht : t.all isDec = true) : Py.stripWs t = t := by
  unfold Py.stripWs
  cases t with
  | nil => rfl
  | cons c r =>
    have hc : isDec c = true := by simp only [List.all_cons, Bool.and_eq_true] at ht; exact ht.1
    rw [List.dropWhile_cons_of_neg (by simp [not_isWs_of_isDec c hc])]
    cases hrev : (c :: r).reverse with
    | nil => simp at hrev
    | cons d m =>
      have hd : d ∈ c :: r := by
        have : d ∈ (c :: r).reverse := by rw [hrev]; simp
        exact List.mem_reverse.1 this
      have hdd : isDec d = true := (List.all_eq_true.1 ht) d hd
      rw [List.dropWhile_cons_of_neg (by simp [not_isWs_of_isDec d hdd]), ← hrev, List.reverse_reverse]

/-- `int(t)` of a non-empty all-digit string is its decimal value -/
theorem pyInt_digits (t : List Char) (hne : t ≠ []) (ht : t.all isDec = true) :
    Py.pyInt 10 t = some (numVal t : Int) := by
  unfold Py.pyInt
  have hasc : t.any (fun c => decide (c.toNat > 127)) = false := by
    rw [List.any_eq_false]
    intro c hc
    have := (isDec_iff c).1 ((List.all_eq_true.1 ht) c hc)
    simp; omega
  simp only [hasc, Bool.false_eq_true, if_false, stripWs_dec t ht]
  cases t with
  | nil => exact absurd rfl hne
  | cons c r =>
    have hc : isDec c = true := by simp only [List.all_cons, Bool.and_eq_true] at ht; exact ht.1
    have hcn := (isDec_iff c).1 hc
    have h1 : (c == '+') = false := by rw [beq_eq_false_iff_ne]; intro e; subst e; revert hcn; decide
    have h2 : (c == '-') = false := by rw [beq_eq_false_iff_ne]; intro e; subst e; revert hcn; decide
    simp only [h1, h2, Bool.false_eq_true, if_false]
    have hd := digitsVal_dec (c :: r) ht 0 false
    simp only [reduceCtorEq, if_false] at hd
    have hpref : (if (10:Nat) = 2 then ['b', 'B'] else if (10:Nat) = 8 then ['o', 'O']
      else if (10:Nat) = 16 then ['x', 'X'] else ([] : List Char)) = [] := by decide
    simp only [hpref, List.contains_nil, Bool.false_eq_true, if_false]
    split
    · next heq => split at heq <;> exact absurd heq (by simp)
    · split
      · next v heq =>
        have hv : v = numVal (c :: r) := by
          split at heq <;> (rw [hd] at heq; simp only [Option.some.injEq] at heq; rw [← heq]; rfl)
        simp [hv]
      · next heq => split at heq <;> (rw [hd] at heq; exact absurd heq (by simp))

theorem isDec_of_plain {t : List Char} (h : plainNum t = true) {c : Char} (hc : c ∈ t) : isDec c = true :=
  List.all_eq_true.1 ((plainNum_iff t).1 h).2.1 c hc

theorem pyInt_plain (t : List Char) (h : plainNum t = true) : Py.pyInt 10 t = some (numVal t : Int) :=
  pyInt_digits t ((plainNum_iff t).1 h).1 ((plainNum_iff t).1 h).2.1

theorem plain_no_dot {t : List Char} (h : plainNum t = true) : '.' ∉ t := fun hc => by
  have := isDec_of_plain h hc; revert this; decide
theorem plain_no_hyphen {t : List Char} (h : plainNum t = true) : '-' ∉ t := fun hc => by
  have := isDec_of_plain h hc; revert this; decide
theorem plain_ne_star {t : List Char} (h : plainNum t = true) : t ≠ ['*'] := fun e => by
  subst e; revert h; decide

/-- the model's own octet reader agrees with `plainNum`/`numVal` -/
theorem decOctet_eq (t : List Char) :
    decOctet t = if plainNum t = true ∧ numVal t ≤ 255 then some (numVal t) else none := by
  unfold decOctet plainNum numVal
  by_cases h1 : (t.isEmpty || t.any (fun c => !isDec c)) = true
  · simp [h1]
  · by_cases h2 : (decide (t.length > 1) && t.head? == some '0') = true
    · simp [h1, h2]
    · simp [h1, h2]

/-! finite tables: the decimal spelling of 0..255 -/
theorem plain_dec : ∀ n, n < 256 → plainNum (dec n) = true := by decide +kernel
theorem numVal_dec : ∀ n, n < 256 → numVal (dec n) = n := by decide +kernel
theorem pyInt_star : Py.pyInt 10 ['*'] = none := by decide +kernel
theorem plain_star : plainNum ['*'] = false := by decide +kernel

end NV.C17
