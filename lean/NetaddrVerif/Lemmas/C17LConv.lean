/-
Lemmas/C17LConv.lean — what a grammatical glob converts to (`glob_to_iptuple` & co.) and why the
shape restriction makes the matching set an interval.
-/
import NetaddrVerif.Lemmas.C17LGlob
namespace NV.C17
open NV NV.Glob

/-- value of four octets -/
def quad (a b c d : Nat) : Nat := a * 2 ^ 24 + b * 2 ^ 16 + c * 2 ^ 8 + d

theorem shape_interval (o0 o1 o2 o3 : Oct) (w0 : o0.WF) (w1 : o1.WF) (w2 : o2.WF) (w3 : o3.WF)
    (hs : shapeOk [o0, o1, o2, o3] = true) (a : Nat) (ha : a < 2 ^ 32) :
    (quad o0.lo o1.lo o2.lo o3.lo ≤ a ∧ a ≤ quad o0.hi o1.hi o2.hi o3.hi) ↔
    (o0.matches (a / 2 ^ 24 % 256) ∧ o1.matches (a / 2 ^ 16 % 256) ∧ o2.matches (a / 2 ^ 8 % 256) ∧
      o3.matches (a % 256)) := by
  cases o0 <;> cases o1 <;> cases o2 <;> cases o3 <;>
    simp only [shapeOk, Oct.isStar, List.all_cons, List.all_nil, Bool.and_true, Bool.and_false, Bool.false_eq_true] at hs <;>
    simp only [Oct.lo, Oct.hi, Oct.matches, Oct.WF, quad] at * <;> omega

theorem shape_lo_le_hi (o0 o1 o2 o3 : Oct) (w0 : o0.WF) (w1 : o1.WF) (w2 : o2.WF) (w3 : o3.WF) :
    quad o0.lo o1.lo o2.lo o3.lo ≤ quad o0.hi o1.hi o2.hi o3.hi ∧ quad o0.hi o1.hi o2.hi o3.hi < 2 ^ 32 := by
  cases o0 <;> cases o1 <;> cases o2 <;> cases o3 <;>
    simp only [Oct.lo, Oct.hi, Oct.WF, quad] at * <;> omega

theorem decOctet_plain {x : List Char} (hp : plainNum x = true) (hv : numVal x ≤ 255) :
    decOctet x = some (numVal x) := by
  rw [decOctet_eq]; simp [hp, hv]

/-- the start/end tokens of a grammatical octet read back as its bounds -/
theorem octet_tokens (o : List Char) (oc : Oct) (h : parseOct o = some oc) :
    decOctet (octetTokens o).1 = some oc.lo ∧ decOctet (octetTokens o).2 = some oc.hi ∧
    '.' ∉ (octetTokens o).1 ∧ '.' ∉ (octetTokens o).2 ∧ oc.WF := by
  unfold parseOct at h
  by_cases e : o = ['*']
  · subst e
    simp only [if_true, Option.some.injEq] at h
    subst h
    refine ⟨by decide +kernel, by decide +kernel, by decide, by decide, trivial⟩
  · simp only [e, if_false] at h
    have e' : (o == ['*']) = false := by rw [beq_eq_false_iff_ne]; exact e
    split at h
    · next x hs =>
      split at h
      · next hc =>
        simp only [Option.some.injEq] at h
        subst h
        have hx : x = o := by
          have := List.intercalate_splitOn (xs := o) '-'
          rw [hs] at this
          simpa using this
        subst hx
        have hc' : x.contains '-' = false := by
          rw [Bool.eq_false_iff]; intro hh; exact plain_no_hyphen hc.1 (List.contains_iff_mem.1 hh)
        simp only [octetTokens, hc', Bool.false_eq_true, if_false, e']
        exact ⟨decOctet_plain hc.1 hc.2, decOctet_plain hc.1 hc.2, plain_no_dot hc.1, plain_no_dot hc.1, hc.2⟩
      · exact absurd h (by simp)
    · next x y hs =>
      split at h
      · next hc =>
        simp only [Option.some.injEq] at h
        subst h
        have hm : o.contains '-' = true := by
          cases hcc : o.contains '-' with
          | true => rfl
          | false =>
            have : '-' ∉ o := fun hh => by
              have := List.contains_iff_mem.2 hh; rw [hcc] at this; exact absurd this (by simp)
            rw [List.splitOn_eq_singleton this] at hs
            simp at hs
        simp only [octetTokens, hm, if_true, hs, List.headD_cons, List.drop_succ_cons, List.drop_zero]
        exact ⟨decOctet_plain hc.1 (by omega), decOctet_plain hc.2.1 hc.2.2.2, plain_no_dot hc.1,
          plain_no_dot hc.2.1, hc.2.2.1, hc.2.2.2⟩
      · exact absurd h (by simp)
    · exact absurd h (by simp)

theorem ipAddress4_join (t0 t1 t2 t3 : List Char) (a b c d : Nat)
    (h0 : decOctet t0 = some a) (h1 : decOctet t1 = some b) (h2 : decOctet t2 = some c) (h3 : decOctet t3 = some d)
    (n0 : '.' ∉ t0) (n1 : '.' ∉ t1) (n2 : '.' ∉ t2) (n3 : '.' ∉ t3) :
    ipAddress4 (['.'].intercalate [t0, t1, t2, t3]) = .ok (quad a b c d) := by
  unfold ipAddress4
  rw [List.splitOn_intercalate]
  · simp only [mapM_opt_cons, mapM_opt_nil, h0, h1, h2, h3]
    rfl
  · intro l hl
    simp only [List.mem_cons, List.not_mem_nil, or_false] at hl
    rcases hl with e | e | e | e <;> subst e <;> assumption
  · simp

/-- the conversion of a grammatical glob: its octet-wise lower and upper bounds -/
theorem conv_of_parse (s : List Char) (os : List Oct) (h : globParse s = some os) :
    ∃ o0 o1 o2 o3, os = [o0, o1, o2, o3] ∧ o0.WF ∧ o1.WF ∧ o2.WF ∧ o3.WF ∧ shapeOk os = true ∧
      ipAddress4 (startEndStrings s).1 = .ok (quad o0.lo o1.lo o2.lo o3.lo) ∧
      ipAddress4 (startEndStrings s).2 = .ok (quad o0.hi o1.hi o2.hi o3.hi) := by
  unfold globParse at h
  cases hm : mapOpt parseOct (s.splitOn '.') with
  | none => simp [hm] at h
  | some os' =>
    simp only [hm] at h
    split at h
    · next hc =>
      simp only [Option.some.injEq] at h
      subst h
      have hlen := mapOpt_length _ _ _ hm
      rw [hc.1] at hlen
      match hsp : s.splitOn '.', hlen with
      | [t0, t1, t2, t3], _ =>
        rw [hsp] at hm
        obtain ⟨o0, r0, p0, hm, e0⟩ := mapOpt_cons_some hm
        obtain ⟨o1, r1, p1, hm, e1⟩ := mapOpt_cons_some hm
        obtain ⟨o2, r2, p2, hm, e2⟩ := mapOpt_cons_some hm
        obtain ⟨o3, r3, p3, hm, e3⟩ := mapOpt_cons_some hm
        simp only [mapOpt, Option.some.injEq] at hm
        subst hm; subst e3; subst e2; subst e1; subst e0
        obtain ⟨a0, b0, c0, d0, w0⟩ := octet_tokens t0 o0 p0
        obtain ⟨a1, b1, c1, d1, w1⟩ := octet_tokens t1 o1 p1
        obtain ⟨a2, b2, c2, d2, w2⟩ := octet_tokens t2 o2 p2
        obtain ⟨a3, b3, c3, d3, w3⟩ := octet_tokens t3 o3 p3
        refine ⟨o0, o1, o2, o3, rfl, w0, w1, w2, w3, hc.2, ?_, ?_⟩
        · simp only [startEndStrings, hsp, List.map_cons, List.map_nil]
          exact ipAddress4_join _ _ _ _ _ _ _ _ a0 a1 a2 a3 c0 c1 c2 c3
        · simp only [startEndStrings, hsp, List.map_cons, List.map_nil]
          exact ipAddress4_join _ _ _ _ _ _ _ _ b0 b1 b2 b3 d0 d1 d2 d3
    · exact absurd h (by simp)

theorem plain_of_decOctet {t : List Char} {v : Nat} (h : decOctet t = some v) :
    plainNum t = true ∧ numVal t ≤ 255 := by
  rw [decOctet_eq] at h
  split at h
  · next hc => exact hc
  · exact absurd h (by simp)

/-- the strings a grammatical glob hands to `IPAddress(...)` are four plain decimal octets
    0..255 without leading zeros, joined by dots -/
theorem tokens_plain (s : List Char) (os : List Oct) (h : globParse s = some os) :
    ∃ t0 t1 t2 t3 u0 u1 u2 u3,
      (startEndStrings s).1 = ['.'].intercalate [t0, t1, t2, t3] ∧
      (startEndStrings s).2 = ['.'].intercalate [u0, u1, u2, u3] ∧
      ∀ t ∈ [t0, t1, t2, t3, u0, u1, u2, u3], plainNum t = true ∧ numVal t ≤ 255 := by
  unfold globParse at h
  cases hm : mapOpt parseOct (s.splitOn '.') with
  | none => simp [hm] at h
  | some os' =>
    simp only [hm] at h
    split at h
    · next hc =>
      have hlen := mapOpt_length _ _ _ hm
      rw [hc.1] at hlen
      match hsp : s.splitOn '.', hlen with
      | [t0, t1, t2, t3], _ =>
        rw [hsp] at hm
        obtain ⟨o0, r0, p0, hm, e0⟩ := mapOpt_cons_some hm
        obtain ⟨o1, r1, p1, hm, e1⟩ := mapOpt_cons_some hm
        obtain ⟨o2, r2, p2, hm, e2⟩ := mapOpt_cons_some hm
        obtain ⟨o3, r3, p3, hm, e3⟩ := mapOpt_cons_some hm
        obtain ⟨a0, b0, _⟩ := octet_tokens t0 o0 p0
        obtain ⟨a1, b1, _⟩ := octet_tokens t1 o1 p1
        obtain ⟨a2, b2, _⟩ := octet_tokens t2 o2 p2
        obtain ⟨a3, b3, _⟩ := octet_tokens t3 o3 p3
        refine ⟨(octetTokens t0).1, (octetTokens t1).1, (octetTokens t2).1, (octetTokens t3).1,
          (octetTokens t0).2, (octetTokens t1).2, (octetTokens t2).2, (octetTokens t3).2, ?_, ?_, ?_⟩
        · simp only [startEndStrings, hsp, List.map_cons, List.map_nil]
        · simp only [startEndStrings, hsp, List.map_cons, List.map_nil]
        · intro t ht
          simp only [List.mem_cons, List.not_mem_nil, or_false] at ht
          rcases ht with rfl | rfl | rfl | rfl | rfl | rfl | rfl | rfl
          · exact plain_of_decOctet a0
          · exact plain_of_decOctet a1
          · exact plain_of_decOctet a2
          · exact plain_of_decOctet a3
          · exact plain_of_decOctet b0
          · exact plain_of_decOctet b1
          · exact plain_of_decOctet b2
          · exact plain_of_decOctet b3
    · exact absurd h (by simp)

end NV.C17
