/-
Lemmas/C08LCtor.lean — the constructor's string side on ARBITRARY strings: what a pattern
captures is always a list of hex tokens inside the row's bounds, hence `str_to_int` has only one
error class and its values are in range; a final newline is invisible to the matcher; strings of
decimal digits that are not bare EUIs match nothing and are read by `int()`.  Core only.
-/
import NetaddrVerif.Lemmas.C08LText
namespace NV.C08L.Ctor
open NV NV.Eui NV.Py NV.PyL NV.Codec NV.Gen

/-! ### whatever a pattern captures -/

/-- what a captured token list looks like for row `f` -/
def Captured (f : MacFmt) (r : List (List Char)) : Prop :=
  r.length = f.groups ∧ ∀ t ∈ r, f.lo ≤ t.length ∧ t.length ≤ f.hi ∧ ∀ c ∈ t, isHex c = true

theorem matchExact_captured (f : MacFmt) (s : List Char) (r : List (List Char))
    (h : matchExact f s = some r) : Captured f r := by
  rw [matchExact_eq] at h
  split at h
  · rename_i hc
    have hr : splitToks f s = r := Option.some.inj h
    rw [hr] at hc
    refine ⟨hc.1, ?_⟩
    intro t ht
    have := (List.all_eq_true.mp hc.2) t ht
    simp only [Bool.and_eq_true, decide_eq_true_eq, List.all_eq_true] at this
    exact ⟨this.1.1, this.1.2, this.2⟩
  · cases h

theorem matchFmt_captured (f : MacFmt) (s : List Char) (r : List (List Char))
    (h : matchFmt f s = some r) : Captured f r := by
  unfold matchFmt at h
  cases hm : matchExact f s with
  | some t =>
    rw [hm] at h
    have : t = r := Option.some.inj h
    subst this
    exact matchExact_captured f s _ hm
  | none =>
    rw [hm] at h
    simp only at h
    split at h
    · exact matchExact_captured f _ r h
    · cases h

theorem firstMatch_captured (fmts : List MacFmt) (s : List Char) (r : List (List Char))
    (h : firstMatch fmts s = some r) : ∃ f ∈ fmts, Captured f r := by
  unfold firstMatch at h
  obtain ⟨f, hf, hm⟩ := List.exists_of_findSome?_eq_some h
  exact ⟨f, hf, matchFmt_captured f s r hm⟩

/-- a table row that `str_to_int` can decode: at least one digit per group, and the `%.<p>x`
    width chosen from the group count holds every group and fills the address width -/
def rowOk (padOf : Nat → Option Nat) (width : Nat) (f : MacFmt) : Bool :=
  decide (1 ≤ f.lo) &&
  match padOf f.groups with
  | some p => decide (f.hi ≤ p) && decide (1 ≤ p) && decide (4 * p * f.groups = width)
  | none => false

theorem rowOk48 : ∀ f ∈ macFormats, rowOk pad48 48 f = true := by decide
theorem rowOk64 : ∀ f ∈ eui64Formats, rowOk pad64 64 f = true := by decide

theorem rowOk_elim {padOf width f} (h : rowOk padOf width f = true) :
    1 ≤ f.lo ∧ ∃ p, padOf f.groups = some p ∧ f.hi ≤ p ∧ 1 ≤ p ∧ 4 * p * f.groups = width := by
  unfold rowOk at h
  cases hp : padOf f.groups with
  | none => rw [hp] at h; simp at h
  | some p =>
    rw [hp] at h
    simp only [Bool.and_eq_true, decide_eq_true_eq] at h
    exact ⟨h.1, p, rfl, h.2.1.1, h.2.1.2, h.2.2⟩

/-- decoding a captured token list never fails and stays inside the width -/
theorem joinWords_captured (padOf : Nat → Option Nat) (width : Nat) (hw : 0 < width) (f : MacFmt)
    (hok : rowOk padOf width f = true) (r : List (List Char)) (hc : Captured f r) :
    ∃ p v, padOf r.length = some p ∧ joinWords p r = some v ∧ v < 2 ^ width := by
  obtain ⟨hlo, p, hp, hhi, hp1, hwid⟩ := rowOk_elim hok
  obtain ⟨hlen, htok⟩ := hc
  have hne : r ≠ [] := by
    intro e
    rw [e] at hlen
    simp only [List.length_nil] at hlen
    rw [← hlen] at hwid
    omega
  have hj := joinWords_spec p hp1 r hne (by
    intro t ht
    obtain ⟨a, b, c⟩ := htok t ht
    refine ⟨⟨?_, c⟩, tokVal_lt t p (Nat.le_trans b hhi)⟩
    intro e; rw [e] at a; simp only [List.length_nil] at a; omega)
  refine ⟨p, _, by rw [hlen]; exact hp, hj, ?_⟩
  have := leValue_lt (4 * p) (r.map tokVal).reverse (by
    intro x hx
    simp only [List.mem_reverse, List.mem_map] at hx
    obtain ⟨t, ht, rfl⟩ := hx
    have := tokVal_lt t p (Nat.le_trans (htok t ht).2.1 hhi)
    rw [Nat.pow_mul]; exact this)
  simp only [List.length_reverse, List.length_map, hlen, hwid] at this
  exact this

/-- **`eui48.str_to_int` on any string**: an AddrFormatError (nothing matches) or a value below
    2^48 — never a ValueError of `int()` -/
theorem strToInt48_total (s : List Char) :
    strToInt48 s = .error .addrFormat ∨ ∃ v, strToInt48 s = .ok v ∧ v < 2 ^ 48 := by
  rw [strToInt48_eq]
  cases hm : firstMatch macFormats s with
  | none => exact Or.inl rfl
  | some r =>
    obtain ⟨f, hf, hc⟩ := firstMatch_captured _ _ _ hm
    obtain ⟨p, v, hp, hj, hv⟩ := joinWords_captured pad48 48 (by decide) f (rowOk48 f hf) r hc
    exact Or.inr ⟨v, by simp only [hp, hj], hv⟩

/-- **`eui64.str_to_int` on any string** -/
theorem strToInt64_total (s : List Char) :
    strToInt64 s = .error .addrFormat ∨ ∃ v, strToInt64 s = .ok v ∧ v < 2 ^ 64 := by
  rw [strToInt64_eq]
  cases hm : firstMatch eui64Formats s with
  | none => exact Or.inl rfl
  | some r =>
    obtain ⟨f, hf, hc⟩ := firstMatch_captured _ _ _ hm
    obtain ⟨p, v, hp, hj, hv⟩ := joinWords_captured pad64 64 (by decide) f (rowOk64 f hf) r hc
    exact Or.inr ⟨v, by simp only [hp, hj], hv⟩

theorem strToInt_total (ver : Nat) (s : List Char) :
    strToInt ver s = .error .addrFormat ∨ ∃ v, strToInt ver s = .ok v := by
  unfold strToInt
  split
  · rcases strToInt48_total s with h | ⟨v, h, _⟩
    · exact Or.inl h
    · exact Or.inr ⟨v, h⟩
  · rcases strToInt64_total s with h | ⟨v, h, _⟩
    · exact Or.inl h
    · exact Or.inr ⟨v, h⟩

/-- catching only `AddrFormatError` (the code) = catching everything (`setExplicit`) -/
theorem setExplicitF_eq (ver : Nat) (a : AddrArg) : setExplicitF ver a = setExplicit ver a := by
  cases a with
  | int n => rfl
  | str s =>
    unfold setExplicitF setExplicit
    rcases strToInt_total ver s with h | ⟨v, h⟩ <;> simp only [h]

theorem ofAnyF_eq (a : AddrArg) (version : Option Int) : ofAnyF a version = ofAny a version := by
  unfold ofAnyF ofAny
  simp only [setExplicitF_eq]

/-! ### a final newline -/

/-- row separators are never a newline (generated tables: by evaluation) -/
def sepNotNl (f : MacFmt) : Bool :=
  match f.sep with
  | [] => true
  | [c] => !isHex c && c != '\n'
  | _ => false

theorem mac_sep_not_nl : ∀ f ∈ macFormats, sepNotNl f = true := by decide
theorem eui64_sep_not_nl : ∀ f ∈ eui64Formats, sepNotNl f = true := by decide

/-- no pattern captures a string with a newline in it as it stands -/
theorem matchExact_newline (f : MacFmt) (hf : sepNotNl f = true) (s : List Char) (h : '\n' ∈ s) :
    matchExact f s = none := by
  cases hm : matchExact f s with
  | none => rfl
  | some r =>
    exfalso
    have hc := matchExact_captured f s r hm
    rw [matchExact_eq] at hm
    split at hm
    · have hr : splitToks f s = r := Option.some.inj hm
      have : ∃ t ∈ r, '\n' ∈ t := by
        rw [← hr]
        unfold splitToks
        unfold sepNotNl at hf
        match hs : f.sep, hf with
        | [], _ => exact ⟨s, by simp, h⟩
        | [c], hf =>
          simp only [Bool.and_eq_true, Bool.not_eq_true', bne_iff_ne, ne_eq] at hf
          have hj := List.intercalate_splitOn (xs := s) c
          have hmem : '\n' ∈ [c].intercalate (s.splitOn c) := by rw [hj]; exact h
          rcases mem_intercalate c _ _ hmem with e | ⟨t, ht, hx⟩
          · exact absurd e.symm hf.2
          · exact ⟨t, ht, hx⟩
      obtain ⟨t, ht, hx⟩ := this
      have := (hc.2 t ht).2.2 _ hx
      exact absurd this (by decide)
    · cases hm

/-- Python's `$`: a single final newline is invisible to every pattern -/
theorem matchFmt_newline (f : MacFmt) (hf : sepNotNl f = true) (s : List Char) (h : '\n' ∉ s) :
    matchFmt f (s ++ ['\n']) = matchFmt f s := by
  rw [matchFmt_eq f s (fun x hx e => h (e ▸ hx))]
  unfold matchFmt
  rw [matchExact_newline f hf (s ++ ['\n']) (by simp)]
  simp only [List.getLast?_concat, if_true, List.dropLast_concat]

theorem firstMatch_newline (fmts : List MacFmt) (hf : ∀ f ∈ fmts, sepNotNl f = true) (s : List Char)
    (h : '\n' ∉ s) : firstMatch fmts (s ++ ['\n']) = firstMatch fmts s := by
  unfold firstMatch
  induction fmts with
  | nil => rfl
  | cons g t ih =>
    rw [List.findSome?_cons, List.findSome?_cons, matchFmt_newline g (hf g (by simp)) s h,
      ih (fun f hm => hf f (by simp [hm]))]

theorem strToInt48_newline (s : List Char) (h : '\n' ∉ s) : strToInt48 (s ++ ['\n']) = strToInt48 s := by
  rw [strToInt48_eq, strToInt48_eq, firstMatch_newline _ mac_sep_not_nl s h]

theorem strToInt64_newline (s : List Char) (h : '\n' ∉ s) : strToInt64 (s ++ ['\n']) = strToInt64 s := by
  rw [strToInt64_eq, strToInt64_eq, firstMatch_newline _ eui64_sep_not_nl s h]

/-! ### strings of decimal digits -/

/-- a non-empty string of ASCII decimal digits -/
def DecStr (s : List Char) : Prop := s ≠ [] ∧ ∀ c ∈ s, ('0' ≤ c ∧ c ≤ '9')

theorem dec_digitVal (c : Char) (h : '0' ≤ c ∧ c ≤ '9') : ∃ d, digitVal 10 c = some d ∧ digitVal 16 c = some d := by
  have h1 : 48 ≤ c.toNat := by
    have := h.1; rw [Char.le_def, UInt32.le_iff_toNat_le] at this; exact this
  have h2 : c.toNat ≤ 57 := by
    have := h.2; rw [Char.le_def, UInt32.le_iff_toNat_le] at this; exact this
  refine ⟨c.toNat - 48, ?_, ?_⟩
  · unfold digitVal
    simp only [h, and_self, if_true]
    rw [if_pos (by show c.toNat - 48 < 10; omega)]; rfl
  · unfold digitVal
    simp only [h, and_self, if_true]
    rw [if_pos (by show c.toNat - 48 < 16; omega)]; rfl

theorem dec_isHex (c : Char) (h : '0' ≤ c ∧ c ≤ '9') : isHex c = true := by
  obtain ⟨d, _, hd⟩ := dec_digitVal c h
  exact (isHex_iff c).mpr ⟨d, hd⟩

theorem dec_plain_tab : ∀ n, 48 ≤ n → n ≤ 57 →
    isWs (Char.ofNat n) = false ∧ Char.ofNat n ≠ '+' ∧ Char.ofNat n ≠ '-' ∧ Char.ofNat n ≠ '_' := by
  intro n h1 h2
  have : n = 48 ∨ n = 49 ∨ n = 50 ∨ n = 51 ∨ n = 52 ∨ n = 53 ∨ n = 54 ∨ n = 55 ∨ n = 56 ∨ n = 57 := by omega
  rcases this with rfl | rfl | rfl | rfl | rfl | rfl | rfl | rfl | rfl | rfl <;> decide

/-- CPython `int(s)` on a string of decimal digits: its positional value -/
theorem pyInt10_dec (s : List Char) (h : DecStr s) : pyInt 10 s = some ((digitsNat 10 s 0 : Nat) : Int) := by
  refine pyInt_plain 10 [] rfl s h.1 (fun c hc => ?_) (fun c hc => ?_)
  · obtain ⟨d, hd, _⟩ := dec_digitVal c (h.2 c hc); exact ⟨d, hd⟩
  · have hc' := h.2 c hc
    have h1 : 48 ≤ c.toNat := by
      have := hc'.1; rw [Char.le_def, UInt32.le_iff_toNat_le] at this; exact this
    have h2 : c.toNat ≤ 57 := by
      have := hc'.2; rw [Char.le_def, UInt32.le_iff_toNat_le] at this; exact this
    have := dec_plain_tab c.toNat h1 h2
    rw [Char.ofNat_toNat] at this
    exact ⟨this.1, this.2.1, this.2.2.1, this.2.2.2, rfl⟩

/-- a decimal-digit string is a one-token spelling (under any separator character) -/
theorem dec_spelling (s : List Char) (h : DecStr s) : Spelling ':' [s] ∧ [':'].intercalate [s] = s := by
  refine ⟨⟨by decide, by decide, by simp, ?_⟩, by simp [List.intercalate, List.intersperse]⟩
  intro t ht
  simp only [List.mem_singleton] at ht
  subst ht
  exact ⟨h.1, fun c hc => dec_isHex c (h.2 c hc)⟩

/-- the one-group rows of the tables are the bare forms: exactly 12 or 11 (EUI-48) and exactly
    16 (EUI-64) digits -/
theorem bare_rows48 : ∀ g ∈ macFormats, g.groups = 1 → (g.lo = 12 ∧ g.hi = 12) ∨ (g.lo = 11 ∧ g.hi = 11) := by decide
theorem bare_rows64 : ∀ g ∈ eui64Formats, g.groups = 1 → g.lo = 16 ∧ g.hi = 16 := by decide

/-- a decimal-digit string that is not 11 or 12 long matches no MAC pattern -/
theorem dec_no_mac (s : List Char) (h : DecStr s) (hl : s.length ≠ 11 ∧ s.length ≠ 12) :
    strToInt48 s = .error .addrFormat := by
  obtain ⟨hsp, he⟩ := dec_spelling s h
  have := parse_none macFormats mac_fmts_ok ':' [s] hsp (by
    intro g hg ⟨hgg, hgl⟩
    have hb := hgl s (by simp)
    rcases bare_rows48 g hg (by simpa using hgg) with ⟨a, b⟩ | ⟨a, b⟩ <;> omega)
  rw [he] at this
  rw [strToInt48_eq, this]

/-- a decimal-digit string that is not 16 long matches no EUI-64 pattern -/
theorem dec_no_eui64 (s : List Char) (h : DecStr s) (hl : s.length ≠ 16) :
    strToInt64 s = .error .addrFormat := by
  obtain ⟨hsp, he⟩ := dec_spelling s h
  have := parse_none eui64Formats eui64_fmts_ok ':' [s] hsp (by
    intro g hg ⟨hgg, hgl⟩
    have hb := hgl s (by simp)
    have := bare_rows64 g hg (by simpa using hgg)
    omega)
  rw [he] at this
  rw [strToInt64_eq, this]

/-! ### `int()` ignores a final newline -/

theorem stripWs_concat_ws (s : List Char) (x : Char) (hx : isWs x = true) : stripWs (s ++ [x]) = stripWs s := by
  unfold stripWs
  rw [List.dropWhile_append]
  by_cases he : (s.dropWhile isWs).isEmpty = true
  · have : s.dropWhile isWs = [] := List.isEmpty_iff.mp he
    simp [this, hx]
  · simp only [he, Bool.false_eq_true, if_false, List.reverse_append, List.reverse_cons, List.reverse_nil,
      List.nil_append, List.cons_append, List.dropWhile_cons, hx, if_true]

theorem pyInt_newline (base : Nat) (s : List Char) : pyInt base (s ++ ['\n']) = pyInt base s := by
  unfold pyInt
  rw [stripWs_concat_ws s '\n' (by decide), List.any_append]
  simp

end NV.C08L.Ctor
