/-
Lemmas/IPSetFaithful.lean — the IPSet model takes `a in b` between two networks in its
interval form (`netIn`); this file proves that form equal to the code's own spelling of
`IPNetwork.__contains__` (shift-compare, `Model/Contains.lean`, property C04) on all
in-range networks, so the substitution in Model/IPSet.lean loses nothing.

Likewise `_compact_single_network` calls `added_network.supernet()`, `.previous()` and
`.next()`; the IPSet model spells them out with local arithmetic (`supernetAt`, the merge
loop's candidate `candOf`).  `cand_eq_step` and `supernet_eq` prove these spellings equal to
the modelled methods of Model/Subnet.lean (C11) — error branches included — on every good key.
-/
import NetaddrVerif.Model.IPSet
import NetaddrVerif.Lemmas.C04L
import NetaddrVerif.Lemmas.IPSetL3
import NetaddrVerif.Props.C11
namespace NV.IPSet
open NV NV.Contains

theorem netIn_eq_netContains (a b : Net) (ha : a.WF) (hb : b.WF) :
    netIn a b = netContains b (.net a) := by
  have h := netContains_iff b (.net a) hb ha
  have hi : netIn a b = true ↔ (a.ver = b.ver ∧ b.first ≤ a.first ∧ a.last ≤ b.last) := by
    unfold netIn
    simp only [Bool.and_eq_true, beq_iff_eq, decide_eq_true_eq]
    constructor
    · rintro ⟨⟨h1, h2⟩, h3⟩; exact ⟨h1, h2, h3⟩
    · rintro ⟨h1, h2, h3⟩; exact ⟨⟨h1, h2⟩, h3⟩
  have hh : netContains b (.net a) = true ↔ (a.ver = b.ver ∧ b.first ≤ a.first ∧ a.last ≤ b.last) := h
  cases h1 : netIn a b <;> cases h2 : netContains b (.net a)
  · rfl
  · exact absurd (hi.2 (hh.1 h2)) (by simp [h1])
  · exact absurd (hh.2 (hi.1 h1)) (by simp [h2])
  · rfl

/-- on a good key the host-bit-free copy taken by `next()` / `previous()` is the key itself -/
theorem netCopy_good (a : Net) (ha : Good a) : Subnet.netCopy a = a := by
  obtain ⟨_, hfirst⟩ := ha
  have hnet : netNetwork (width a.ver) a.val a.plen = a.val := hfirst.symm
  unfold Subnet.netCopy; rw [hnet]

/-- **the merge loop's candidate is `previous()` / `next()`** of the modelled `IPNetwork`
    methods (Model/Subnet.lean, C11): on every good key with a non-zero prefix the call the
    Python code makes (`previous()` when the block's own bit is set, else `next()`, both with
    the default step 1) returns — it cannot raise IndexError — and returns exactly the
    network `candOf a` the IPSet model looks up. -/
theorem cand_eq_step (a : Net) (ha : Good a) (hp : 1 ≤ a.plen) :
    (if (a.val >>> (width a.ver - a.plen)) % 2 = 1 then Subnet.previous a 1 else Subnet.next a 1)
      = .ok (candOf a) := by
  have hcopy := netCopy_good a ha
  have hal := good_aligned a ha
  obtain ⟨⟨hver, hv, hpl⟩, hfirst⟩ := ha
  have hnet : netNetwork (width a.ver) a.val a.plen = a.val := hfirst.symm
  have hsz := Subnet.netSize_eq (width a.ver) a.val a.plen hv
  have hW := pw (width a.ver)
  generalize hwd : width a.ver = w at *
  generalize hkd : w - a.plen = k at *
  have hk : 0 < 2 ^ k := pw k
  have ew : 2 ^ w = 2 ^ k * 2 ^ a.plen := by
    rw [← Nat.pow_add]; congr 1; omega
  have ep : 2 ^ a.plen = 2 * 2 ^ (a.plen - 1) := by
    have : a.plen = (a.plen - 1) + 1 := by omega
    rw [this, Nat.pow_succ]; simp; omega
  obtain ⟨q, hq⟩ := Nat.dvd_of_mod_eq_zero hal
  have hqlt : q < 2 ^ a.plen := by
    have : 2 ^ k * q < 2 ^ k * 2 ^ a.plen := by rw [← hq, ← ew]; exact hv
    exact Nat.lt_of_mul_lt_mul_left this
  have hbit : (a.val >>> k) % 2 = q % 2 := by
    rw [Nat.shiftRight_eq_div_pow, hq, Nat.mul_div_cancel_left _ hk]
  unfold candOf
  rw [hwd, hkd, hnet]
  by_cases hb : (a.val >>> k) % 2 = 1
  · rw [if_pos hb, if_pos hb]
    have hq1 : q % 2 = 1 := by rw [← hbit]; exact hb
    have hge : 2 ^ k ≤ a.val := by rw [hq]; exact Nat.le_mul_of_pos_right _ (by omega)
    unfold Subnet.previous Subnet.isub
    rw [hcopy]
    simp only [hwd, hsz, hnet, maxInt]
    generalize 2 ^ k = S at *
    generalize 2 ^ w = W at *
    have c1 : ¬ ((a.val : Int) - (S : Int) * 1 < 0) := by omega
    have c2 : ¬ ((a.val : Int) - (S : Int) * 1 + ((S : Int) - 1) > ((W - 1 : Nat) : Int)) := by omega
    rw [if_neg c1, if_neg c2]
    congr 2
    omega
  · rw [if_neg hb, if_neg hb]
    have hq0 : q % 2 = 0 := by
      have := Nat.mod_two_eq_zero_or_one q; rw [hbit] at hb; omega
    have hle : a.val + 2 ^ k + 2 ^ k ≤ 2 ^ w := by
      have : q + 2 ≤ 2 ^ a.plen := by omega
      calc a.val + 2 ^ k + 2 ^ k = 2 ^ k * (q + 2) := by rw [hq, Nat.mul_add]; omega
        _ ≤ 2 ^ k * 2 ^ a.plen := Nat.mul_le_mul_left _ this
        _ = 2 ^ w := ew.symm
    unfold Subnet.next Subnet.iadd
    rw [hcopy]
    simp only [hwd, hsz, hnet, maxInt]
    generalize 2 ^ k = S at *
    generalize 2 ^ w = W at *
    have c1 : ¬ ((a.val : Int) + (S : Int) * 1 + ((S : Int) - 1) > ((W - 1 : Nat) : Int)) := by omega
    have c2 : ¬ ((a.val : Int) + (S : Int) * 1 < 0) := by omega
    rw [if_neg c1, if_neg c2]
    congr 2
    omega

/-- in particular neither call raises inside the merge loop -/
theorem step_no_error (a : Net) (ha : Good a) (hp : 1 ≤ a.plen) :
    ((a.val >>> (width a.ver - a.plen)) % 2 = 1 → Subnet.previous a 1 = .ok (candOf a)) ∧
    (¬ (a.val >>> (width a.ver - a.plen)) % 2 = 1 → Subnet.next a 1 = .ok (candOf a)) := by
  have h := cand_eq_step a ha hp
  constructor
  · intro hb; rw [if_pos hb] at h; exact h
  · intro hb; rw [if_neg hb] at h; exact h

/-- `added_network.supernet()` (default `prefixlen=0`) of the modelled method is the list of
    the model's `supernetAt a q`, `q = 0 … plen-1`, in that order — for every network whose
    prefix is within the width (no host-bit condition needed) -/
theorem supernet_eq_of_le (a : Net) (hpl : a.plen ≤ width a.ver) :
    Subnet.supernet a 0 = .ok ((List.range a.plen).map (supernetAt a)) := by
  unfold Subnet.supernet
  have hg : (0 ≤ (0 : Int) ∧ (0 : Int) ≤ (width a.ver : Nat)) := by omega
  rw [if_neg (fun h => h hg)]
  rw [Subnet.supernetLoop_le a.ver (width a.ver) _ a.plen _ (0 : Int).toNat [] rfl (by simp) hpl]
  simp only [List.nil_append, Int.toNat_zero, Nat.sub_zero, List.range_eq_range']
  rfl

/-- **the `/width` path's `for supernet in added_network.supernet()` loop** visits exactly the
    keys `supernetAt a q`, `q < plen`, that `compactSingle` looks up -/
theorem supernet_eq (a : Net) (ha : Good a) :
    Subnet.supernet a 0 = .ok ((List.range a.plen).map (supernetAt a)) :=
  supernet_eq_of_le a ha.1.2.2

/-- the `for potential_supernet in added_network.supernet(): if potential_supernet in
    self._cidrs` walk, run over the modelled method's own result list, is the test
    `compactSingle` makes -/
theorem supernet_walk (s : St) (a : Net) (ha : Good a) :
    ∃ l, Subnet.supernet a 0 = .ok l ∧
      l.any (fun c => dMem s c) = (List.range a.plen).any (fun q => dMem s (supernetAt a q)) :=
  ⟨_, supernet_eq a ha, by rw [List.any_map]; rfl⟩

/-- the same list in the closed form of `C11.supernet_spec`: on a good key each visited
    supernet is the floor of the key's value to the `/q` grid -/
theorem supernetAt_good (a : Net) (ha : Good a) (q : Nat) (hq : q < a.plen) :
    supernetAt a q = ⟨a.ver, a.val / 2 ^ (width a.ver - q) * 2 ^ (width a.ver - q), q⟩ := by
  have h := (C11.supernet_spec a ha.1 0).2 (by omega) (by omega)
  rw [supernet_eq a ha] at h
  simp only [Int.toNat_zero, Nat.sub_zero, ← List.range_eq_range'] at h
  have h2 := Except.ok.inj h
  have h3 := List.map_inj_left.1 h2 q (List.mem_range.2 hq)
  exact h3

/-- a concrete instance of the hypotheses: 192.0.2.128/25 is a good key with `1 ≤ plen` -/
example : Good ⟨4, 0xC0000280, 25⟩ ∧ 1 ≤ (⟨4, 0xC0000280, 25⟩ : Net).plen :=
  ⟨⟨⟨Or.inl rfl, by decide +kernel, by decide +kernel⟩, by decide +kernel⟩, by decide⟩
example : Subnet.previous ⟨4, 0xC0000280, 25⟩ 1 = .ok (candOf ⟨4, 0xC0000280, 25⟩) := by decide +kernel
example : Subnet.next ⟨4, 0xC0000200, 25⟩ 1 = .ok (candOf ⟨4, 0xC0000200, 25⟩) := by decide +kernel
example : Subnet.supernet ⟨4, 0xC0000280, 25⟩ 0 =
    .ok ((List.range 25).map (supernetAt ⟨4, 0xC0000280, 25⟩)) := by decide +kernel

end NV.IPSet
