/-
Lemmas/IPSetFaithful.lean — the IPSet model takes `a in b` between two networks in its
interval form (`netIn`); this file proves that form equal to the code's own spelling of
`IPNetwork.__contains__` (shift-compare, `Model/Contains.lean`, property C04) on all
in-range networks, so the substitution in Model/IPSet.lean loses nothing.
-/
import NetaddrVerif.Model.IPSet
import NetaddrVerif.Lemmas.C04L
namespace NV.IPSet
open NV NV.Contains

theorem netIn_eq_netContains (a b : Net) (ha : a.WF) (hb : b.WF) :
    netIn a b = netContains b (.net a) := by
  have h := netContains_iff b (.net a) hb ha
  have hi : netIn a b = true ↔ (a.ver = b.ver ∧ b.first ≤ a.first ∧ a.last ≤ b.last) := by
    unfold netIn
    simp only [Bool.and_eq_true, beq_iff_eq, decide_eq_true_eq]
    constructor
    · rintro ⟨⟨h1, h2⟩, h3⟩; exact ⟨h1, h2, h3⟩
    · rintro ⟨h1, h2, h3⟩; exact ⟨⟨h1, h2⟩, h3⟩
  have hh : netContains b (.net a) = true ↔ (a.ver = b.ver ∧ b.first ≤ a.first ∧ a.last ≤ b.last) := h
  cases h1 : netIn a b <;> cases h2 : netContains b (.net a)
  · rfl
  · exact absurd (hi.2 (hh.1 h2)) (by simp [h1])
  · exact absurd (hh.2 (hi.1 h1)) (by simp [h2])
  · rfl

end NV.IPSet
