/-
Lemmas/C15LB85.lean — RFC 1924 base-85: digits of `b85Loop`, the positional sum of `b85Sum`,
and the generated alphabet / dictionary as inverse tables.  Core only.
-/
import NetaddrVerif.Model.Codec
namespace NV.Codec

/-- little-endian value in base B -/
def leVal (B : Nat) : List Nat → Nat
  | [] => 0
  | x :: t => x + B * leVal B t

/-- `BASE_85[w]` -/
def b85Char (w : Nat) : Char := Gen.base85.getD w '?'

/-- the alphabet and the dictionary are inverse tables on 0..84 -/
theorem b85_dict_char : ∀ d, d < 85 → Gen.base85Dict.lookup (b85Char d).toNat = some d := by
  decide +kernel

theorem b85Loop_lt : ∀ f n, ∀ x ∈ b85Loop f n, x < 85 := by
  intro f
  induction f with
  | zero => intro n x hx; simp [b85Loop] at hx
  | succ f ih =>
    intro n x hx
    simp only [b85Loop] at hx
    split at hx
    · simp only [List.mem_cons] at hx
      rcases hx with rfl | h
      · exact Nat.mod_lt _ (by decide)
      · exact ih _ x h
    · simp at hx

theorem b85Loop_val : ∀ f n, n ≤ f → leVal 85 (b85Loop f n) = n := by
  intro f
  induction f with
  | zero => intro n h; have : n = 0 := by omega
            subst this; rfl
  | succ f ih =>
    intro n h
    simp only [b85Loop]
    split
    · rename_i hpos
      have : n / 85 ≤ f := by
        have : n / 85 < n := Nat.div_lt_self hpos (by decide)
        omega
      simp only [leVal, ih _ this]
      omega
    · have : n = 0 := by omega
      subst this; rfl

theorem b85Loop_len : ∀ f n k, n ≤ f → n < 85 ^ k → (b85Loop f n).length ≤ k := by
  intro f
  induction f with
  | zero => intro n k _ _; simp [b85Loop]
  | succ f ih =>
    intro n k h hk
    simp only [b85Loop]
    split
    · rename_i hpos
      cases k with
      | zero => simp at hk; omega
      | succ k =>
        have h1 : n / 85 ≤ f := by
          have : n / 85 < n := Nat.div_lt_self hpos (by decide)
          omega
        have h2 : n / 85 < 85 ^ k := by
          rw [Nat.pow_succ] at hk
          exact (Nat.div_lt_iff_lt_mul (by decide)).mpr hk
        have := ih _ k h1 h2
        simp only [List.length_cons]; omega
    · simp

/-- the positional sum over characters that are the alphabet's spelling of digits `ds` -/
theorem b85Sum_digits (ds : List Nat) (h : ∀ d ∈ ds, d < 85) (rest : List Char) :
    ∀ i acc, b85Sum (ds.map b85Char ++ rest) i acc = b85Sum rest (i + ds.length) (acc + 85 ^ i * leVal 85 ds) := by
  induction ds with
  | nil => intro i acc; simp [leVal]
  | cons d t ih =>
    intro i acc
    simp only [List.map_cons, List.cons_append, b85Sum, b85_dict_char d (h d (by simp))]
    rw [ih (fun x hx => h x (by simp [hx]))]
    simp only [leVal, List.length_cons, Nat.pow_succ]
    congr 1
    · omega
    · rw [Nat.mul_add, ← Nat.mul_assoc, Nat.mul_comm d]; omega

theorem b85Sum_zeros (k : Nat) : ∀ i acc, b85Sum (List.replicate k '0') i acc = .ok acc := by
  induction k with
  | zero => intro i acc; rfl
  | succ k ih =>
    intro i acc
    have h0 : Gen.base85Dict.lookup ('0').toNat = some 0 := by decide +kernel
    simp only [List.replicate_succ, b85Sum, h0, ih]
    simp

theorem two_pow_128_lt : 2 ^ 128 < 85 ^ 20 := by decide

end NV.Codec
