/-
Lemmas/C13L.lean — helper lemmas for C13: the widening loop of `spanning_cidr`
(`spanLoop` of Model/Cidr.lean) stops at the longest prefix whose block around `highest`
reaches down to `lowest`; running min / max folds.  Core Lean only.
-/
import NetaddrVerif.Lemmas.NetworkL
import NetaddrVerif.Lemmas.C04L
import NetaddrVerif.Model.SpanErr
namespace NV.Span
open NV

/-- `hi` with its low `j` bits cleared -/
def trunc (hi j : Nat) : Nat := hi / 2 ^ j * 2 ^ j

theorem trunc_le (hi j : Nat) : trunc hi j ≤ hi := Nat.div_mul_le_self _ _

theorem lt_trunc_add (hi j : Nat) : hi < trunc hi j + 2 ^ j := by
  unfold trunc
  have := Nat.div_add_mod' hi (2 ^ j)
  have := Nat.mod_lt hi (pw j)
  omega

/-- loop invariant of the widening loop -/
theorem spanLoop_spec (w lo hi : Nat) (hhi : hi < 2 ^ w) :
    ∀ (p ipnum : Nat), p ≤ w → ipnum = trunc hi (w - p) → (∀ j, j < w - p → lo < trunc hi j) →
      (spanLoop w lo hi p ipnum).plen ≤ p ∧
      (spanLoop w lo hi p ipnum).val = trunc hi (w - (spanLoop w lo hi p ipnum).plen) ∧
      (spanLoop w lo hi p ipnum).val ≤ lo ∧
      (∀ j, j < w - (spanLoop w lo hi p ipnum).plen → lo < trunc hi j)
  | 0, ipnum, _, hip, hinv => by
    simp only [spanLoop]
    refine ⟨Nat.le_refl _, hip, ?_, hinv⟩
    rw [hip]; unfold trunc
    rw [Nat.sub_zero, Nat.div_eq_of_lt hhi]; omega
  | p + 1, ipnum, hp, hip, hinv => by
    unfold spanLoop
    by_cases hgt : ipnum > lo
    · rw [if_pos hgt]
      have ih := spanLoop_spec w lo hi hhi p ((hi >>> (w - p)) <<< (w - p)) (by omega)
        (by rw [shr_shl]; rfl)
        (by
          intro j hj
          by_cases hj' : j < w - (p + 1)
          · exact hinv j hj'
          · have : j = w - (p + 1) := by omega
            rw [this, ← hip]; exact hgt)
      exact ⟨by omega, ih.2.1, ih.2.2.1, ih.2.2.2⟩
    · rw [if_neg hgt]
      exact ⟨Nat.le_refl _, hip, by show ipnum ≤ lo; omega, hinv⟩

/-- what `spanningOf` returns, for `lo <= hi < 2^w` -/
theorem spanningOf_spec (w lo hi : Nat) (hhi : hi < 2 ^ w) :
    (spanningOf w lo hi).plen ≤ w ∧
    (spanningOf w lo hi).val = trunc hi (w - (spanningOf w lo hi).plen) ∧
    (spanningOf w lo hi).val ≤ lo ∧
    (∀ j, j < w - (spanningOf w lo hi).plen → lo < trunc hi j) := by
  unfold spanningOf
  exact spanLoop_spec w lo hi hhi w hi (Nat.le_refl _) (by unfold trunc; simp) (by intro j hj; omega)

/-- a block of prefix `q` that covers `lo` and `hi` forces `trunc hi (w-q) <= lo` -/
theorem cover_trunc (w v q lo hi : Nat) (hv : v < 2 ^ w)
    (h1 : netFirst w v q ≤ lo) (h2 : hi ≤ netLast w v q) (hlh : lo ≤ hi) : trunc hi (w - q) ≤ lo := by
  have a := (NV.Contains.shr_eq_iff w v q lo hv).2 ⟨h1, by omega⟩
  have b := (NV.Contains.shr_eq_iff w v q hi hv).2 ⟨by omega, h2⟩
  rw [Nat.shiftRight_eq_div_pow, Nat.shiftRight_eq_div_pow] at a b
  unfold trunc
  rw [b, ← a]
  exact Nat.div_mul_le_self _ _

/-- running minimum `lowest_ipnum = min(lowest_ipnum, network.first)` -/
theorem foldl_min_spec {α : Type} (f : α → Nat) : ∀ (l : List α) (a : Nat),
    l.foldl (fun m n => min m (f n)) a ≤ a ∧ (∀ n ∈ l, l.foldl (fun m n => min m (f n)) a ≤ f n) ∧
    (l.foldl (fun m n => min m (f n)) a = a ∨ ∃ n ∈ l, l.foldl (fun m n => min m (f n)) a = f n)
  | [], a => by simp
  | x :: xs, a => by
    simp only [List.foldl_cons]
    obtain ⟨h1, h2, h3⟩ := foldl_min_spec f xs (min a (f x))
    refine ⟨by omega, ?_, ?_⟩
    · intro n hn
      rcases List.mem_cons.1 hn with rfl | hn
      · omega
      · exact h2 n hn
    · rcases h3 with h3 | ⟨n, hn, h3⟩
      · by_cases hc : a ≤ f x
        · left; rw [h3]; omega
        · right; exact ⟨x, List.mem_cons_self .., by rw [h3]; omega⟩
      · right; exact ⟨n, List.mem_cons_of_mem _ hn, h3⟩

/-- running maximum `highest_ipnum = max(highest_ipnum, network.last)` -/
theorem foldl_max_spec {α : Type} (f : α → Nat) : ∀ (l : List α) (a : Nat),
    a ≤ l.foldl (fun m n => max m (f n)) a ∧ (∀ n ∈ l, f n ≤ l.foldl (fun m n => max m (f n)) a) ∧
    (l.foldl (fun m n => max m (f n)) a = a ∨ ∃ n ∈ l, l.foldl (fun m n => max m (f n)) a = f n)
  | [], a => by simp
  | x :: xs, a => by
    simp only [List.foldl_cons]
    obtain ⟨h1, h2, h3⟩ := foldl_max_spec f xs (max a (f x))
    refine ⟨by omega, ?_, ?_⟩
    · intro n hn
      rcases List.mem_cons.1 hn with rfl | hn
      · omega
      · exact h2 n hn
    · rcases h3 with h3 | ⟨n, hn, h3⟩
      · by_cases hc : f x ≤ a
        · left; rw [h3]; omega
        · right; exact ⟨x, List.mem_cons_self .., by rw [h3]; omega⟩
      · right; exact ⟨n, List.mem_cons_of_mem _ hn, h3⟩

/-- lowest first address of a non-empty list -/
def lowest (w : Nat) (a : Pfx) (rest : List Pfx) : Nat :=
  rest.foldl (fun m n => min m (n.first w)) (a.first w)
/-- highest last address of a non-empty list -/
def highest (w : Nat) (a : Pfx) (rest : List Pfx) : Nat :=
  rest.foldl (fun m n => max m (n.last w)) (a.last w)

theorem lowest_spec (w : Nat) (a : Pfx) (rest : List Pfx) :
    (∀ n ∈ a :: rest, lowest w a rest ≤ n.first w) ∧ (∃ n ∈ a :: rest, lowest w a rest = n.first w) := by
  obtain ⟨h1, h2, h3⟩ := foldl_min_spec (fun n : Pfx => n.first w) rest (a.first w)
  constructor
  · intro n hn
    rcases List.mem_cons.1 hn with rfl | hn
    · exact h1
    · exact h2 n hn
  · rcases h3 with h3 | ⟨n, hn, h3⟩
    · exact ⟨a, List.mem_cons_self .., h3⟩
    · exact ⟨n, List.mem_cons_of_mem _ hn, h3⟩

theorem highest_spec (w : Nat) (a : Pfx) (rest : List Pfx) :
    (∀ n ∈ a :: rest, n.last w ≤ highest w a rest) ∧ (∃ n ∈ a :: rest, highest w a rest = n.last w) := by
  obtain ⟨h1, h2, h3⟩ := foldl_max_spec (fun n : Pfx => n.last w) rest (a.last w)
  constructor
  · intro n hn
    rcases List.mem_cons.1 hn with rfl | hn
    · exact h1
    · exact h2 n hn
  · rcases h3 with h3 | ⟨n, hn, h3⟩
    · exact ⟨a, List.mem_cons_self .., h3⟩
    · exact ⟨n, List.mem_cons_of_mem _ hn, h3⟩

theorem spanningCidr_eq (w : Nat) (a b : Pfx) (rest : List Pfx) :
    spanningCidr w (a :: b :: rest) = .ok (spanningOf w (lowest w a (b :: rest)) (highest w a (b :: rest))) := rfl

/-- lists with the same members have the same lowest first / highest last -/
theorem lowest_congr (w : Nat) (a a' : Pfx) (r r' : List Pfx) (h : ∀ x, x ∈ a :: r ↔ x ∈ a' :: r') :
    lowest w a r = lowest w a' r' := by
  obtain ⟨l1, n, hn, e1⟩ := lowest_spec w a r
  obtain ⟨l2, n', hn', e2⟩ := lowest_spec w a' r'
  have := l2 n ((h n).1 hn)
  have := l1 n' ((h n').2 hn')
  omega

theorem highest_congr (w : Nat) (a a' : Pfx) (r r' : List Pfx) (h : ∀ x, x ∈ a :: r ↔ x ∈ a' :: r') :
    highest w a r = highest w a' r' := by
  obtain ⟨l1, n, hn, e1⟩ := highest_spec w a r
  obtain ⟨l2, n', hn', e2⟩ := highest_spec w a' r'
  have := l2 n ((h n).1 hn)
  have := l1 n' ((h n').2 hn')
  omega

end NV.Span
