/-
Lemmas/C12L.lean — spec vocabulary of C12 (what identifies an IP object, first/last address of
an object) and the order theory of Python tuple comparison (`tupleCmp`) behind Props/C12.lean.
-/
import NetaddrVerif.Model.ComparePickle
import NetaddrVerif.Lemmas.NetworkL
namespace NV.Cmp
open NV

/-! ### spec vocabulary -/

/-- first address of an object (an address is its own first and last) -/
def Obj.first : Obj → Nat
  | .addr a => a.val
  | .net n => n.first
  | .rng r => r.lo

def Obj.last : Obj → Nat
  | .addr a => a.val
  | .net n => n.last
  | .rng r => r.hi

/-- block objects: IPNetwork, IPRange, IPGlob -/
def Obj.isBlock : Obj → Bool
  | .addr _ => false
  | _ => true

/-- addresses and networks (the objects `sorted()` is specified on) -/
def Obj.isAN : Obj → Bool
  | .rng _ => false
  | _ => true

/-! ### Python tuple comparison is a total order on int tuples -/

theorem tupleCmp_refl : ∀ a : List Int, tupleCmp a a = .eq
  | [] => rfl
  | x :: a => by simp [tupleCmp, tupleCmp_refl a]

theorem tupleCmp_eq_iff : ∀ a b : List Int, tupleCmp a b = .eq ↔ a = b
  | [], [] => by simp [tupleCmp]
  | [], _ :: _ => by simp [tupleCmp]
  | _ :: _, [] => by simp [tupleCmp]
  | x :: a, y :: b => by
    simp only [tupleCmp, List.cons.injEq]
    by_cases h1 : x < y
    · simp [h1]; omega
    · by_cases h2 : x > y
      · simp [h1, h2]; omega
      · simp only [h1, h2, if_false, tupleCmp_eq_iff a b]
        have : x = y := by omega
        simp [this]

theorem tupleCmp_lt_iff_gt : ∀ a b : List Int, tupleCmp a b = .lt ↔ tupleCmp b a = .gt
  | [], [] => by simp [tupleCmp]
  | [], _ :: _ => by simp [tupleCmp]
  | _ :: _, [] => by simp [tupleCmp]
  | x :: a, y :: b => by
    simp only [tupleCmp]
    by_cases h1 : x < y
    · have h3 : ¬ y < x := by omega
      have h4 : y > x := h1
      simp [h1, h3]
    · by_cases h2 : x > y
      · have h3 : y < x := h2
        simp [h1, h2]
      · have h3 : ¬ y < x := by omega
        have h4 : ¬ y > x := by omega
        simp only [h1, h2, if_false]
        exact tupleCmp_lt_iff_gt a b

theorem tupleCmp_gt_iff_lt (a b : List Int) : tupleCmp a b = .gt ↔ tupleCmp b a = .lt :=
  (tupleCmp_lt_iff_gt b a).symm

/-- `≤` of tuples (not `>`) is transitive -/
theorem tle_trans : ∀ a b c : List Int, tupleCmp a b ≠ .gt → tupleCmp b c ≠ .gt → tupleCmp a c ≠ .gt
  | [], _, [] => by simp [tupleCmp]
  | [], _, _ :: _ => by simp [tupleCmp]
  | _ :: _, [], _ => by simp [tupleCmp]
  | _ :: _, _ :: _, [] => by intro _ h; simp [tupleCmp] at h
  | x :: a, y :: b, z :: c => by
    simp only [tupleCmp]
    intro h1 h2
    by_cases xy : x < y
    · by_cases yz : y < z
      · have : x < z := by omega
        simp [this]
      · by_cases zy : y > z
        · simp [yz, zy] at h2
        · have : x < z := by omega
          simp [this]
    · by_cases yx : x > y
      · simp [xy, yx] at h1
      · simp only [xy, yx, if_false] at h1
        by_cases yz : y < z
        · have : x < z := by omega
          simp [this]
        · by_cases zy : y > z
          · simp [yz, zy] at h2
          · simp only [yz, zy, if_false] at h2
            have e1 : ¬ x < z := by omega
            have e2 : ¬ x > z := by omega
            simp only [e1, e2, if_false]
            exact tle_trans a b c h1 h2

/-- `≤` of tuples is total -/
theorem tle_total (a b : List Int) : tupleCmp a b ≠ .gt ∨ tupleCmp b a ≠ .gt := by
  by_cases h : tupleCmp a b = .gt
  · right; rw [(tupleCmp_gt_iff_lt a b).1 h]; simp
  · left; exact h

/-- `≤` both ways means equal tuples -/
theorem tle_antisymm (a b : List Int) (h1 : tupleCmp a b ≠ .gt) (h2 : tupleCmp b a ≠ .gt) : a = b := by
  apply (tupleCmp_eq_iff a b).1
  cases h : tupleCmp a b with
  | eq => rfl
  | gt => exact absurd h h1
  | lt => exact absurd ((tupleCmp_lt_iff_gt a b).1 h) h2

/-- first differing leading component decides -/
theorem tupleCmp_head_lt (x y : Int) (a b : List Int) (h : x < y) : tupleCmp (x :: a) (y :: b) = .lt := by
  simp [tupleCmp, h]

theorem tupleCmp_head_eq (x : Int) (a b : List Int) : tupleCmp (x :: a) (x :: b) = tupleCmp a b := by
  simp [tupleCmp]

/-! ### sort keys -/

/-- every sort key starts with `(version, first address, …)` -/
theorem sortKey_head (x : Obj) : ∃ t, x.sortKey = (x.ver : Int) :: (x.first : Int) :: t := by
  cases x with
  | addr a => exact ⟨_, rfl⟩
  | net n => exact ⟨_, rfl⟩
  | rng r => exact ⟨_, rfl⟩

/-- on addresses and networks the sort key determines the object -/
theorem sortKey_inj_AN (x y : Obj) (hx : x.isAN = true) (hy : y.isAN = true) (h : x.sortKey = y.sortKey) : x = y := by
  cases x with
  | addr a =>
    cases y with
    | addr b =>
      cases a; cases b
      simp only [Obj.sortKey, Addr.sortKey, List.cons.injEq, and_true] at h
      obtain ⟨h1, h2, _⟩ := h
      simp only [Obj.addr.injEq, Addr.mk.injEq]; constructor <;> omega
    | net m => simp [Obj.sortKey, Addr.sortKey, Net.sortKey] at h
    | rng r => simp [Obj.isAN] at hy
  | net n =>
    cases y with
    | addr b => simp [Obj.sortKey, Addr.sortKey, Net.sortKey] at h
    | net m =>
      simp only [Obj.sortKey, Net.sortKey, List.cons.injEq, and_true] at h
      obtain ⟨h1, h2, h3, h4⟩ := h
      cases n; cases m; simp only [Obj.net.injEq, Net.mk.injEq]
      simp only at h1 h2 h3 h4
      refine ⟨by omega, by omega, by omega⟩
    | rng r => simp [Obj.isAN] at hy
  | rng r => simp [Obj.isAN] at hx

end NV.Cmp
