/-
Lemmas/C01LZf.lean — facts about the ZEROFILL rewrite
`'.'.join(['%d' % int(i) for i in addr.split('.')])` (`AddrParse.zerofill`) on ARBITRARY strings:
when it succeeds (every part converts under `int()`), what its output looks like (digits, '-',
'.'), that a '/' or ':' in the input makes it fail, and that `'%d' % n` is a C literal of value
`n` (so the rewritten text is always read in DECIMAL by `inet_aton`).  Core Lean only.
-/
import NetaddrVerif.Lemmas.C01LAtonG
import NetaddrVerif.Lemmas.C01LStrict
import NetaddrVerif.Lemmas.C03LInt
namespace NV.C01L.Zf
open NV NV.Text4 NV.AddrParse NV.C01L

/-! ### `mapM` in `Option` -/

theorem mapM_some_iff {α β} (f : α → Option β) (l : List α) (r : List β) :
    l.mapM f = some r ↔ l.map f = r.map some := by
  induction l generalizing r with
  | nil =>
    simp only [List.mapM_nil, Option.pure_def, Option.some.injEq, List.map_nil]
    constructor
    · intro h; subst h; rfl
    · intro h; cases r with
      | nil => rfl
      | cons _ _ => cases h
  | cons a t ih =>
    simp only [List.mapM_cons, Option.bind_eq_bind, Option.pure_def, List.map_cons]
    cases hfa : f a with
    | none =>
      simp only [Option.bind_none]
      constructor
      · intro h; cases h
      · intro h; cases r with
        | nil => cases h
        | cons _ _ => simp at h
    | some b =>
      simp only [Option.bind_some]
      cases htm : t.mapM f with
      | none =>
        simp only [Option.bind_none]
        constructor
        · intro h; cases h
        · intro h
          cases r with
          | nil => cases h
          | cons b' r' =>
            simp only [List.map_cons, List.cons.injEq] at h
            have := (ih r').mpr h.2
            rw [htm] at this; cases this
      | some bs =>
        simp only [Option.bind_some, Option.some.injEq]
        have hbs := (ih bs).mp htm
        constructor
        · intro h; subst h
          simp [hbs]
        · intro h
          cases r with
          | nil => cases h
          | cons b' r' =>
            simp only [List.map_cons, List.cons.injEq, Option.some.injEq] at h
            have := (ih r').mpr h.2
            rw [htm] at this; injection this with this
            rw [h.1, this]

theorem split_values (ps : List (List Char)) (ts : List (List Char))
    (h : ps.map (fun i => (Py.pyInt 10 i).map showInt) = ts.map some) :
    ∃ ns : List Int, ps.map (Py.pyInt 10) = ns.map some ∧ ts = ns.map showInt := by
  induction ps generalizing ts with
  | nil =>
    cases ts with
    | nil => exact ⟨[], rfl, rfl⟩
    | cons _ _ => cases h
  | cons p ps' ih =>
    cases ts with
    | nil => cases h
    | cons x ts' =>
      simp only [List.map_cons, List.cons.injEq] at h
      obtain ⟨ns, e1, e2⟩ := ih ts' h.2
      cases hp : Py.pyInt 10 p with
      | none => rw [hp] at h; cases h.1
      | some n =>
        rw [hp] at h
        simp only [Option.map_some, Option.some.injEq] at h
        exact ⟨n :: ns, by simp [hp, e1], by simp [h.1, e2]⟩

/-- **the ZEROFILL rewrite, exactly**: it succeeds iff every dot-separated part converts under
    `int()` (values `ns`), and then prints the values with `'%d'` and joins them with dots -/
theorem zerofill_iff (s t : List Char) :
    zerofill s = some t ↔ ∃ ns : List Int,
      (s.splitOn '.').map (Py.pyInt 10) = ns.map some ∧ t = ['.'].intercalate (ns.map showInt) := by
  unfold zerofill
  constructor
  · intro h
    cases hm : (s.splitOn '.').mapM (fun i => (Py.pyInt 10 i).map showInt) with
    | none => rw [hm] at h; cases h
    | some ts =>
      rw [hm] at h
      simp only [Option.map_some, Option.some.injEq] at h
      obtain ⟨ns, e1, e2⟩ := split_values _ _ ((mapM_some_iff _ _ _).mp hm)
      exact ⟨ns, e1, by rw [← h, e2]⟩
  · rintro ⟨ns, hF, rfl⟩
    have hm : (s.splitOn '.').mapM (fun i => (Py.pyInt 10 i).map showInt) = some (ns.map showInt) := by
      apply (mapM_some_iff _ _ _).mpr
      have : (fun i => (Py.pyInt 10 i).map showInt) = (Option.map showInt) ∘ (Py.pyInt 10) := rfl
      rw [this, ← List.map_map, hF, List.map_map, List.map_map]
      rfl
    rw [hm]; rfl

/-! ### inputs on which the rewrite fails -/

theorem pyInt_slash (s : List Char) (h : '/' ∈ s) : Py.pyInt 10 s = none :=
  pyInt_bad '/' (by decide) (by decide) (by decide) (by decide) (by decide) s h

theorem zerofill_slash (s : List Char) (h : '/' ∈ s) : zerofill s = none := by
  unfold zerofill
  obtain ⟨p, hp, hc⟩ := mem_splitOn '.' '/' s h (by decide)
  rw [mapM_none _ _ p hp (by simp [pyInt_slash p hc])]
  rfl

/-! ### what the rewritten text looks like -/

theorem dec_chars (n : Nat) : ∀ c ∈ dec n, isDec c = true := fun c hc => (C03L.dec_decCh n c hc).2.2.2.2.2.2.2.2.2

theorem showInt_chars (n : Int) : ∀ c ∈ showInt n, c = '-' ∨ isDec c = true := by
  intro c hc
  unfold showInt at hc
  split at hc
  · rcases List.mem_cons.mp hc with e | e
    · exact Or.inl e
    · exact Or.inr (dec_chars _ c e)
  · exact Or.inr (dec_chars _ c hc)

theorem showInt_neg_mem (n : Int) (h : n < 0) : '-' ∈ showInt n := by
  unfold showInt; simp [h]

theorem showInt_nonneg_no_dash (n : Int) (h : 0 ≤ n) : '-' ∉ showInt n := by
  unfold showInt
  have : ¬ n < 0 := by omega
  simp only [this, if_false]
  intro hm
  exact absurd (dec_chars _ _ hm) (by decide)

/-- the rewritten text consists of decimal digits, '-' and '.' only -/
theorem zerofill_out_chars (s t : List Char) (h : zerofill s = some t) :
    ∀ c ∈ t, c = '.' ∨ c = '-' ∨ isDec c = true := by
  obtain ⟨ns, _, rfl⟩ := (zerofill_iff s t).mp h
  intro c hc
  rcases mem_intercalate '.' _ c hc with e | ⟨l, hl, hcl⟩
  · exact Or.inl e
  · obtain ⟨n, _, rfl⟩ := List.mem_map.mp hl
    exact Or.inr (showInt_chars n c hcl)

theorem zerofill_out_not (s t : List Char) (h : zerofill s = some t) (c : Char) (h1 : c ≠ '.') (h2 : c ≠ '-')
    (h3 : isDec c = false) : c ∉ t := by
  intro hc
  rcases zerofill_out_chars s t h c hc with e | e | e
  · exact h1 e
  · exact h2 e
  · rw [h3] at e; cases e

/-- a '-' appears in the rewritten text exactly when some part's `int()` value is negative -/
theorem dash_iff (ns : List Int) :
    '-' ∈ ['.'].intercalate (ns.map showInt) ↔ ∃ n ∈ ns, n < 0 := by
  constructor
  · intro h
    rcases mem_intercalate '.' _ _ h with e | ⟨l, hl, hcl⟩
    · exact absurd e (by decide)
    · obtain ⟨n, hn, rfl⟩ := List.mem_map.mp hl
      refine ⟨n, hn, ?_⟩
      by_cases hneg : n < 0
      · exact hneg
      · exact absurd hcl (showInt_nonneg_no_dash n (by omega))
  · rintro ⟨n, hn, hneg⟩
    have hm : showInt n ∈ ns.map showInt := List.mem_map.mpr ⟨n, hn, rfl⟩
    have hd := showInt_neg_mem n hneg
    generalize ns.map showInt = ls at hm
    induction ls with
    | nil => cases hm
    | cons a r ih =>
      cases r with
      | nil =>
        have : showInt n = a := by simpa using hm
        subst this
        simpa [List.intercalate] using hd
      | cons b r' =>
        rw [intercalate_cons_cons]
        rcases List.mem_cons.mp hm with e | e
        · subst e; simp [hd]
        · have := ih e
          simp [this]

/-! ### `'%d' % n` is a C literal of value `n` (never octal, never hex) -/

theorem hexVal_digitChar : ∀ d, d < 10 → hexVal (Nat.digitChar d) = d := by decide

theorem ofBase_snoc (b : Nat) (l : List Char) (c : Char) : ofBase b (l ++ [c]) = ofBase b l * b + hexVal c := by
  simp [ofBase, List.foldl_append]

theorem ofBase10_dec (n : Nat) : ofBase 10 (dec n) = n := by
  unfold dec
  induction n using Nat.strongRecOn with
  | ind n ih =>
    rw [Nat.toDigits_eq_if (by decide)]
    by_cases h : n < 10
    · simp only [h, if_true]
      simp [ofBase, hexVal_digitChar n h]
    · simp only [h, if_false]
      rw [ofBase_snoc, ih (n / 10) (Nat.div_lt_self (by omega) (by decide)),
        hexVal_digitChar _ (Nat.mod_lt _ (by decide))]
      omega

theorem digitChar_ne_zero : ∀ d, d < 10 → 0 < d → Nat.digitChar d ≠ '0' := by decide

theorem dec_head_ne_zero (n : Nat) (hn : 0 < n) : ∃ c r, dec n = c :: r ∧ c ≠ '0' := by
  unfold dec
  induction n using Nat.strongRecOn with
  | ind n ih =>
    rw [Nat.toDigits_eq_if (by decide)]
    by_cases h : n < 10
    · simp only [h, if_true]
      exact ⟨_, [], rfl, digitChar_ne_zero n h hn⟩
    · simp only [h, if_false]
      obtain ⟨c, r, e, hc⟩ := ih (n / 10) (Nat.div_lt_self (by omega) (by decide)) (by omega)
      exact ⟨c, r ++ [Nat.digitChar (n % 10)], by rw [e]; rfl, hc⟩

theorem isCLit_dec (n : Nat) : IsCLit (dec n) n := by
  by_cases hn : n = 0
  · subst hn
    have h : IsCLit ['0'] (ofBase 8 ['0']) := IsCLit.oct [] (by intro x hx; cases hx)
    exact h
  · obtain ⟨c, r, e, hc⟩ := dec_head_ne_zero n (by omega)
    have hall := dec_chars n
    rw [e] at hall
    have h := IsCLit.dec c r (hall c (by simp)) hc (fun x hx => hall x (by simp [hx]))
    rw [← e, ofBase10_dec] at h
    exact h

theorem dec_no_nul (n : Nat) : Char.ofNat 0 ∉ dec n := fun h => absurd (dec_chars n _ h) (by decide)

end NV.C01L.Zf
