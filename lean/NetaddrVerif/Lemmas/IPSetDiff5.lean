/-
Lemmas/IPSetDiff5.lean — `IPSet.difference` (`-`) and `IPSet.symmetric_difference` (`^`):
for canonical operands of any mix of families the result is canonical and denotes exactly
the set difference / the symmetric difference (C07/C06).
-/
import NetaddrVerif.Lemmas.IPSetDiff4
namespace NV.IPSet
open NV NV.Blk

/-- the sorted key list denotes what the state denotes -/
theorem nden_sorted (s : St) (hg : ∀ n ∈ s, n.WF) (x : Nat) : nden (sortNets s) x ↔ den (s.map lin) x := by
  rw [den_lin_nden s hg]
  have hp := sortNets_perm s
  constructor
  · exact nden_mono (fun n hn => hp.mem_iff.1 hn) x
  · exact nden_mono (fun n hn => hp.mem_iff.2 hn) x

theorem den_append (A B : List Blk) (x : Nat) : den (A ++ B) x ↔ den A x ∨ den B x := by
  unfold den
  simp only [List.mem_append]
  constructor
  · rintro ⟨b, h | h, hx⟩
    · exact Or.inl ⟨b, h, hx⟩
    · exact Or.inr ⟨b, h, hx⟩
  · rintro (⟨b, h, hx⟩ | ⟨b, h, hx⟩)
    · exact ⟨b, Or.inl h, hx⟩
    · exact ⟨b, Or.inr h, hx⟩

/-- `difference` / `-`: the result is canonical and denotes exactly the addresses of the
    first operand that are not in the second -/
theorem difference_spec (s t : St) (hs : Inv s) (ht : Inv t) :
    Inv (difference s t) ∧ ∀ ver a, denS (difference s t) ver a ↔ denS s ver a ∧ ¬ denS t ver a := by
  have hps := sortNets_perm s; have hpt := sortNets_perm t
  have hA := asc_sorted s hs; have hB := asc_sorted t ht
  have hsw : ∀ n ∈ s, n.WF := fun n hn => (hs.good n hn).1
  have htw : ∀ n ∈ t, n.WF := fun n hn => (ht.good n hn).1
  have hlen : (sortNets s).length + (sortNets t).length < s.length + t.length + 1 := by
    rw [hps.length_eq, hpt.length_eq]; omega
  obtain ⟨cn, rn, e, hcn, hrn, hpw, hdj, hden⟩ :=
    diffSweep_spec (s.length + t.length + 1) (sortNets s) (sortNets t) [] [] hA hB hlen
  have hdiff : difference s t = (rangesToCidrs rn).foldl dInsert (fromKeys cn) := by
    unfold difference; rw [e]; simp [fromKeys]
  have hasc : AscR rn := ⟨fun r hr => (hrn r hr).1, hpw⟩
  obtain ⟨kg, kc, kd⟩ := rangesToCidrs_spec rn hasc
  have hcng : ∀ n ∈ cn, Good n := fun n hn => hA.1 n (hcn n hn)
  obtain ⟨f1, f2, f3⟩ := fromKeys_mem cn hcng
  obtain ⟨g1, g2⟩ := denS_foldl_dInsert (rangesToCidrs rn) kg (fromKeys cn) f1
  have hnd := nodup_foldl_dInsert (rangesToCidrs rn) kg (fromKeys cn) f1 f2
  rw [← hdiff] at g1 g2 hnd
  -- members of the result on the line
  have hmem : ∀ b, b ∈ (difference s t).map lin ↔ b ∈ cn.map lin ++ (rangesToCidrs rn).map lin := by
    intro b
    simp only [List.mem_append, List.mem_map]
    constructor
    · rintro ⟨n, hn, rfl⟩
      rcases (g2 n).1 hn with h | h
      · exact Or.inl ⟨n, (f3 n).1 h, rfl⟩
      · exact Or.inr ⟨n, h, rfl⟩
    · rintro (⟨n, hn, rfl⟩ | ⟨n, hn, rfl⟩)
      · exact ⟨n, (g2 n).2 (Or.inl ((f3 n).2 hn)), rfl⟩
      · exact ⟨n, (g2 n).2 (Or.inr hn), rfl⟩
  have hcnw : ∀ n ∈ cn, n.WF := fun n hn => (hcng n hn).1
  -- the whole keys and the range keys do not meet
  have hapart : ∀ x, ¬ (den (cn.map lin) x ∧ den ((rangesToCidrs rn).map lin) x) := by
    intro x ⟨h1, h2⟩
    obtain ⟨n, hn, k1, k2⟩ := (den_lin_nden cn hcnw x).1 h1
    obtain ⟨r, hr, k3, k4⟩ := (kd x).1 h2
    rcases hdj n hn r hr with h | h <;> omega
  have hinS : ∀ x, den ((rangesToCidrs rn).map lin) x → den (s.map lin) x := by
    intro x h
    have := (hden x).1 (Or.inr ((kd x).1 h))
    exact (nden_sorted s hsw x).1 this.1
  have hcs : CanonSet ((difference s t).map lin) := by
    apply canonset_congr _ hmem
    apply canonset_union (s.map lin) _ _ (canonset_lin s hs) _ kc hinS hapart
    intro b hb
    obtain ⟨n, hn, rfl⟩ := List.mem_map.1 hb
    exact List.mem_map.2 ⟨n, hps.mem_iff.1 (hcn n hn), rfl⟩
  have hinv : Inv (difference s t) := inv_of_lin _ g1 hnd hcs
  refine ⟨hinv, fun ver a => ?_⟩
  have hline : ∀ x, den ((difference s t).map lin) x ↔ den (s.map lin) x ∧ ¬ den (t.map lin) x := by
    intro x
    rw [den_congr hmem x, den_append, den_lin_nden cn hcnw, kd x, hden x, nden_sorted s hsw, nden_sorted t htw]
  rw [denS_iff_lin _ (fun n hn => (g1 n hn).1), denS_iff_lin s hsw, denS_iff_lin t htw, hline]
  constructor
  · rintro ⟨h1, h2, h3, h4⟩; exact ⟨⟨h1, h2, h3⟩, fun ⟨_, _, h5⟩ => h4 h5⟩
  · rintro ⟨⟨h1, h2, h3⟩, h4⟩; exact ⟨h1, h2, h3, fun h5 => h4 ⟨h1, h2, h5⟩⟩

/-- `symmetric_difference` / `^`: the result is canonical and denotes exactly the addresses
    that are in one operand and not in the other -/
theorem symmetricDifference_spec (s t : St) (hs : Inv s) (ht : Inv t) :
    Inv (symmetricDifference s t) ∧
    ∀ ver a, denS (symmetricDifference s t) ver a ↔
      (denS s ver a ∧ ¬ denS t ver a) ∨ (denS t ver a ∧ ¬ denS s ver a) := by
  have hps := sortNets_perm s; have hpt := sortNets_perm t
  have hA := asc_sorted s hs; have hB := asc_sorted t ht
  have hsw : ∀ n ∈ s, n.WF := fun n hn => (hs.good n hn).1
  have htw : ∀ n ∈ t, n.WF := fun n hn => (ht.good n hn).1
  have hlen : (sortNets s).length + (sortNets t).length < s.length + t.length + 1 := by
    rw [hps.length_eq, hpt.length_eq]; omega
  obtain ⟨rn, e, hrn, hpw, hden⟩ :=
    xorSweep_spec (s.length + t.length + 1) (sortNets s) (sortNets t) [] hA hB hlen
  have hx : symmetricDifference s t = fromKeys (rangesToCidrs rn) := by
    unfold symmetricDifference; rw [e]; simp
  have hasc : AscR rn := ⟨fun r hr => (hrn r hr).1, hpw⟩
  obtain ⟨kg, kc, kd⟩ := rangesToCidrs_spec rn hasc
  obtain ⟨f1, f2, f3⟩ := fromKeys_mem (rangesToCidrs rn) kg
  rw [← hx] at f1 f2 f3
  have hmem : ∀ b, b ∈ (symmetricDifference s t).map lin ↔ b ∈ (rangesToCidrs rn).map lin := by
    intro b
    simp only [List.mem_map]
    constructor
    · rintro ⟨n, hn, rfl⟩; exact ⟨n, (f3 n).1 hn, rfl⟩
    · rintro ⟨n, hn, rfl⟩; exact ⟨n, (f3 n).2 hn, rfl⟩
  have hinv : Inv (symmetricDifference s t) := inv_of_lin _ f1 f2 (canonset_congr kc hmem)
  refine ⟨hinv, fun ver a => ?_⟩
  have hline : ∀ x, den ((symmetricDifference s t).map lin) x ↔
      (den (s.map lin) x ∧ ¬ den (t.map lin) x) ∨ (den (t.map lin) x ∧ ¬ den (s.map lin) x) := by
    intro x
    rw [den_congr hmem x, kd x, hden x, nden_sorted s hsw, nden_sorted t htw]
  rw [denS_iff_lin _ (fun n hn => (f1 n hn).1), denS_iff_lin s hsw, denS_iff_lin t htw, hline]
  constructor
  · rintro ⟨h1, h2, (⟨h3, h4⟩ | ⟨h3, h4⟩)⟩
    · exact Or.inl ⟨⟨h1, h2, h3⟩, fun ⟨_, _, h5⟩ => h4 h5⟩
    · exact Or.inr ⟨⟨h1, h2, h3⟩, fun ⟨_, _, h5⟩ => h4 h5⟩
  · rintro (⟨⟨h1, h2, h3⟩, h4⟩ | ⟨⟨h1, h2, h3⟩, h4⟩)
    · exact ⟨h1, h2, Or.inl ⟨h3, fun h5 => h4 ⟨h1, h2, h5⟩⟩⟩
    · exact ⟨h1, h2, Or.inr ⟨h3, fun h5 => h4 ⟨h1, h2, h5⟩⟩⟩

end NV.IPSet
