/-
Lemmas/C15LPyInt.lean — `Py.pyInt base s` on a non-empty string of plain digits of the base
(no sign, whitespace, underscore or prefix) is the positional value of the digits.  Used for
`int(bits, 2)` and `int(w, 16)`.  Core only.
-/
import NetaddrVerif.Model.PyRuntime
namespace NV.PyL
open NV.Py

/-- positional value, most significant digit first (digits outside the base count 0) -/
def digitsNat (base : Nat) (s : List Char) (acc : Nat) : Nat :=
  s.foldl (fun a c => a * base + (digitVal base c).getD 0) acc

theorem digitVal_ascii (base : Nat) (c : Char) (d : Nat) (h : digitVal base c = some d) : c.toNat < 128 := by
  apply Classical.byContradiction
  intro hn
  have h9 : ¬ c ≤ '9' := by
    rw [Char.le_def, UInt32.le_iff_toNat_le]; show ¬ c.toNat ≤ 57; omega
  have hf : ¬ c ≤ 'f' := by
    rw [Char.le_def, UInt32.le_iff_toNat_le]; show ¬ c.toNat ≤ 102; omega
  have hF : ¬ c ≤ 'F' := by
    rw [Char.le_def, UInt32.le_iff_toNat_le]; show ¬ c.toNat ≤ 70; omega
  simp [digitVal, h9, hf, hF] at h

/-- what a digit of base 2 or 16 cannot be -/
def PlainChar (c : Char) : Prop :=
  isWs c = false ∧ c ≠ '+' ∧ c ≠ '-' ∧ c ≠ '_' ∧ c ≠ 'x' ∧ c ≠ 'X' ∧ ¬ (c.toNat > 127)

theorem plain16_tab : ∀ n, n < 128 → ∀ d, digitVal 16 (Char.ofNat n) = some d →
    isWs (Char.ofNat n) = false ∧ Char.ofNat n ≠ '+' ∧ Char.ofNat n ≠ '-' ∧ Char.ofNat n ≠ '_' ∧
    Char.ofNat n ≠ 'x' ∧ Char.ofNat n ≠ 'X' := by decide +kernel

theorem plain2_tab : ∀ n, n < 128 → ∀ d, digitVal 2 (Char.ofNat n) = some d →
    isWs (Char.ofNat n) = false ∧ Char.ofNat n ≠ '+' ∧ Char.ofNat n ≠ '-' ∧ Char.ofNat n ≠ '_' ∧
    Char.ofNat n ≠ 'b' ∧ Char.ofNat n ≠ 'B' := by decide +kernel

theorem plain16 (c : Char) (d : Nat) (h : digitVal 16 c = some d) :
    isWs c = false ∧ c ≠ '+' ∧ c ≠ '-' ∧ c ≠ '_' ∧ c ≠ 'x' ∧ c ≠ 'X' := by
  have hc := digitVal_ascii 16 c d h
  have := plain16_tab c.toNat hc d (by rw [Char.ofNat_toNat]; exact h)
  rwa [Char.ofNat_toNat] at this

theorem plain2 (c : Char) (d : Nat) (h : digitVal 2 c = some d) :
    isWs c = false ∧ c ≠ '+' ∧ c ≠ '-' ∧ c ≠ '_' ∧ c ≠ 'b' ∧ c ≠ 'B' := by
  have hc := digitVal_ascii 2 c d h
  have := plain2_tab c.toNat hc d (by rw [Char.ofNat_toNat]; exact h)
  rwa [Char.ofNat_toNat] at this

theorem dropWhile_none {α} (p : α → Bool) (l : List α) (h : ∀ a ∈ l, p a = false) : l.dropWhile p = l := by
  cases l with
  | nil => rfl
  | cons a t => simp [h a (by simp)]

theorem stripWs_id (s : List Char) (h : ∀ c ∈ s, isWs c = false) : stripWs s = s := by
  unfold stripWs
  rw [dropWhile_none _ s h, dropWhile_none _ s.reverse (fun c hc => h c (by simpa using hc))]
  simp

/-- digits without underscores: the left fold -/
theorem digitsVal_plain (base : Nat) (s : List Char)
    (h : ∀ c ∈ s, c ≠ '_' ∧ ∃ d, digitVal base c = some d) :
    ∀ acc prev, digitsVal base s acc prev =
      if s = [] then (if prev then some acc else none) else some (digitsNat base s acc) := by
  induction s with
  | nil => intro acc prev; simp [digitsVal]
  | cons c t ih =>
    intro acc prev
    obtain ⟨hu, d, hd⟩ := h c (by simp)
    have hu' : (c == '_') = false := by simpa using hu
    simp only [digitsVal, hu', Bool.false_eq_true, if_false, hd, List.cons_ne_nil, digitsNat, List.foldl_cons,
      Option.getD_some]
    rw [ih (fun x hx => h x (by simp [hx]))]
    by_cases ht : t = []
    · subst ht; simp
    · simp [ht, digitsNat]

/-- the prefix step of `pyInt`, as a function of its own -/
def stripPref (pref : List Char) (t : List Char) : List Char :=
  match t with
  | '0' :: p :: r' => if pref.contains p then (match r' with | '_' :: r'' => r'' | _ => r') else t
  | _ => t

/-- `pyInt` with the prefix step named (definitionally the same function) -/
def pyInt' (base : Nat) (s : List Char) : Option Int :=
  if s.any (fun c => c.toNat > 127) then none else
  let t := stripWs s
  match t with
  | [] => none
  | c :: r =>
    let (neg, t) := if c == '+' then (false, r) else if c == '-' then (true, r) else (false, t)
    let pref : List Char := if base = 2 then ['b', 'B'] else if base = 8 then ['o', 'O']
      else if base = 16 then ['x', 'X'] else []
    let t := stripPref pref t
    match t with
    | [] => none
    | _ => match digitsVal base t 0 false with
      | some v => some (if neg then -(v : Int) else v)
      | none => none

theorem pyInt_eq (base : Nat) (s : List Char) : pyInt base s = pyInt' base s := rfl

theorem stripPref_id (pref : List Char) (t : List Char)
    (h : ∀ p r', t = '0' :: p :: r' → pref.contains p = false) : stripPref pref t = t := by
  unfold stripPref
  split
  · rename_i p r'
    simp only [h p r' rfl, Bool.false_eq_true, if_false]
  · rfl

/-- `int(s, base)` on a non-empty string of plain digits, given what such digits cannot be -/
theorem pyInt_plain (base : Nat) (pref : List Char)
    (hpref : (if base = 2 then ['b', 'B'] else if base = 8 then ['o', 'O']
      else if base = 16 then ['x', 'X'] else []) = pref)
    (s : List Char) (hne : s ≠ [])
    (h : ∀ c ∈ s, ∃ d, digitVal base c = some d)
    (hp : ∀ c ∈ s, isWs c = false ∧ c ≠ '+' ∧ c ≠ '-' ∧ c ≠ '_' ∧ pref.contains c = false) :
    pyInt base s = some (Int.ofNat (digitsNat base s 0)) := by
  have hasc : s.any (fun c => decide (c.toNat > 127)) = false := by
    rw [List.any_eq_false]; intro c hc
    obtain ⟨d, hd⟩ := h c hc
    have := digitVal_ascii base c d hd
    simp; omega
  have hs := stripWs_id s (fun c hc => (hp c hc).1)
  have hdv := digitsVal_plain base s (fun c hc => ⟨(hp c hc).2.2.2.1, h c hc⟩) 0 false
  rw [pyInt_eq]
  unfold pyInt'
  simp only [hasc, Bool.false_eq_true, if_false, hs, hpref]
  match s, hne with
  | c :: r, _ =>
    obtain ⟨_, h1, h2, _, _⟩ := hp c (by simp)
    have e1 : (c == '+') = false := by simpa using h1
    have e2 : (c == '-') = false := by simpa using h2
    simp only [e1, e2, Bool.false_eq_true, if_false]
    rw [stripPref_id pref (c :: r) (fun p r' he => (hp p (by rw [he]; simp)).2.2.2.2)]
    simp only [hdv, List.cons_ne_nil, if_false]
    rfl

/-- `int(s, 16)` on plain hex digits -/
theorem pyInt16_plain (s : List Char) (hne : s ≠ []) (h : ∀ c ∈ s, ∃ d, digitVal 16 c = some d) :
    pyInt 16 s = some (Int.ofNat (digitsNat 16 s 0)) := by
  refine pyInt_plain 16 ['x', 'X'] rfl s hne h ?_
  intro c hc
  obtain ⟨d, hd⟩ := h c hc
  obtain ⟨a, b, c', d', e, f⟩ := plain16 c d hd
  refine ⟨a, b, c', d', ?_⟩
  have a1 : (c == 'x') = false := by simpa using e
  have a2 : (c == 'X') = false := by simpa using f
  simp [List.contains, List.elem, a1, a2]

/-- `int(s, 2)` on plain binary digits -/
theorem pyInt2_plain (s : List Char) (hne : s ≠ []) (h : ∀ c ∈ s, ∃ d, digitVal 2 c = some d) :
    pyInt 2 s = some (Int.ofNat (digitsNat 2 s 0)) := by
  refine pyInt_plain 2 ['b', 'B'] rfl s hne h ?_
  intro c hc
  obtain ⟨d, hd⟩ := h c hc
  obtain ⟨a, b, c', d', e, f⟩ := plain2 c d hd
  refine ⟨a, b, c', d', ?_⟩
  have a1 : (c == 'b') = false := by simpa using e
  have a2 : (c == 'B') = false := by simpa using f
  simp [List.contains, List.elem, a1, a2]

end NV.PyL
