/-
Lemmas/C17LPyLitDefs.lean — an independent, declarative grammar of the ASCII strings that CPython's
`int(s)` (base 10) accepts, with their values.  Nothing here mentions `Py.pyInt`; the equivalence
`Py.pyInt 10 s = some z ↔ IntLit s z` is proved in Lemmas/C17LPyLit.lean.

    intlit  ::= ws* sign? udigits ws*
    sign    ::= '+' | '-'
    udigits ::= digit ( '_'? digit )*          -- single underscores, only between two digits
    ws      ::= ' ' | '\t' | '\n' | '\r' | '\x0b' | '\x0c'

Leading zeros are allowed ("007" = 7, "0_0" = 0), the value is the usual positional value of the
digit sequence, negated after '-'.
-/
namespace NV.C17L.PyLit

/-- `c` is the ASCII decimal digit of value `d` -/
def DigitCh (c : Char) (d : Nat) : Prop := d < 10 ∧ c = Char.ofNat (48 + d)

/-- `digit ('_'? digit)*`, with the digit values in order -/
inductive UDigits : List Char → List Nat → Prop
  | one {c : Char} {d : Nat} : DigitCh c d → UDigits [c] [d]
  | cons {c : Char} {d : Nat} {t : List Char} {ds : List Nat} :
      DigitCh c d → UDigits t ds → UDigits (c :: t) (d :: ds)
  | consU {c : Char} {d : Nat} {t : List Char} {ds : List Nat} :
      DigitCh c d → UDigits t ds → UDigits (c :: '_' :: t) (d :: ds)

/-- positional value of a digit sequence, most significant first -/
def valOf (ds : List Nat) : Nat := ds.foldl (fun a d => 10 * a + d) 0

/-- the ASCII whitespace `int()` strips -/
def Ws (c : Char) : Prop := c = ' ' ∨ c = '\t' ∨ c = '\n' ∨ c = '\r' ∨ c = '\x0b' ∨ c = '\x0c'

/-- optional sign; the flag says "negative" -/
inductive Sign : List Char → Bool → Prop
  | none : Sign [] false
  | plus : Sign ['+'] false
  | minus : Sign ['-'] true

/-- the strings `int(·)` accepts in base 10, with their value -/
def IntLit (s : List Char) (z : Int) : Prop :=
  ∃ (pre sg body post : List Char) (neg : Bool) (ds : List Nat),
    s = pre ++ sg ++ body ++ post ∧ (∀ c ∈ pre, Ws c) ∧ (∀ c ∈ post, Ws c) ∧ Sign sg neg ∧
    UDigits body ds ∧ z = if neg then -(valOf ds : Int) else (valOf ds : Int)

end NV.C17L.PyLit
