/-
Lemmas/C03L.lean — helper lemmas for C03: splitting at '/', the address part, the prefix part
(decimal numeral or netmask / hostmask text), the generated mask tables.
-/
import NetaddrVerif.Lemmas.C03LInt
import NetaddrVerif.Props.C01
import NetaddrVerif.Props.C02
import NetaddrVerif.Model.NetParse
namespace NV.C03L
open NV NV.Text4 NV.AddrParse NV.NetParse NV.C01L

def VerOK (ver : Nat) : Prop := ver = 4 ∨ ver = 6

theorem splitSlash_app (a t : List Char) (ha : a.contains '/' = false) : splitSlash (a ++ '/' :: t) = (a, some t) := by
  have hmem : '/' ∉ a := C01.not_mem_of_contains_false ha
  have hall : ∀ x ∈ a, (x != '/') = true := by
    intro x hx
    have : x ≠ '/' := fun e => hmem (e ▸ hx)
    simpa using this
  have hs : ('/' != '/') = false := by decide
  have hc : (a ++ '/' :: t).contains '/' = true := by simp
  unfold splitSlash
  rw [hc]
  simp only [if_true]
  rw [takeWhile_all _ a '/' t hall hs, dropWhile_all _ a '/' t hall hs]
  rfl

theorem splitSlash_none (a : List Char) (ha : a.contains '/' = false) : splitSlash a = (a, none) := by
  unfold splitSlash; rw [ha]; rfl

/-- default-dialect address text, any family -/
theorem addr_noslash (be : Backend) (ver : Nat) (hver : VerOK ver) (v : Nat) (hv : v < 2 ^ width ver) :
    (intToStr be ver v).contains '/' = false := by
  rcases hver with h | h <;> subst h
  · exact slash_not_in_ntoa v hv
  · exact text6_noslash be .compact v hv

theorem addr_rt (be : Backend) (ver : Nat) (hver : VerOK ver) (v : Nat) (hv : v < 2 ^ width ver) :
    ipAddress be (intToStr be ver v) (some ver) INET_PTON = .ok ⟨ver, v⟩ := by
  rcases hver with h | h <;> subst h
  · exact C01.roundtrip4 be v hv _ (Or.inr rfl) 1 (by decide)
  · exact C01.roundtrip6 be .compact v hv _ (Or.inr rfl) _

theorem addr6_colon (be : Backend) (v : Nat) (hv : v < 2 ^ 128) : (intToStr be 6 v).contains ':' = true := by
  obtain ⟨pre, r, he, _⟩ := text6_shape be .compact v hv
  show (intToStr6 be .compact v).contains ':' = true
  rw [he]; simp

theorem addr4_dot (v : Nat) : '.' ∈ ntoa v := by rw [ntoa_eq]; simp [List.intercalate]

/-- `int()` refuses a printed address (it contains '.' or ':') -/
theorem pyInt_addr (be : Backend) (ver : Nat) (hver : VerOK ver) (v : Nat) (hv : v < 2 ^ width ver) :
    Py.pyInt 10 (intToStr be ver v) = none := by
  rcases hver with h | h <;> subst h
  · exact pyInt_dot _ (addr4_dot v)
  · exact pyInt_colon _ (List.contains_iff_mem.mp (addr6_colon be v hv))

/-- an IPv6 text is no IPv4 network address, with or without a prefix part -/
theorem parse4_v6text (be : Backend) (v : Nat) (hv : v < 2 ^ 128) (rest : Option (List Char))
    (hrest : ∀ t, rest = some t → t.contains '/' = false) (fl : Nat) :
    parseIpNetwork be 4 (.str (intToStr be 6 v ++ (match rest with | none => [] | some t => '/' :: t))) false fl
      = .error .addrFormat := by
  have hns := addr_noslash be 6 (Or.inr rfl) v hv
  have hx : ipAddress be (intToStr be 6 v) (some 4) INET_PTON = .error .addrFormat :=
    (C01.no_cross_family be INET_PTON).2 .compact v hv
  have hcol := addr6_colon be v hv
  have hexp : expandPartialAddress (intToStr be 6 v) = .error .addrFormat := by
    unfold expandPartialAddress; rw [hcol]; rfl
  unfold parseIpNetwork
  cases rest with
  | none =>
    simp only [List.append_nil, Bool.false_eq_true, if_false, splitSlash_none _ hns, secondSlash, parseStrCore, hx, hexp]
    rfl
  | some t =>
    have ht := hrest t rfl
    simp only [Bool.false_eq_true, if_false, splitSlash_app _ t hns, secondSlash, parseStrCore, ht, hx, hexp]
    rfl

/-! ### the generated tables and the mask predicates, every prefix (complete finite domains) -/
def maskFacts (ver w p : Nat) : Bool :=
  decide (netNetmask w p < 2 ^ w) && decide (netHostmask w p < 2 ^ w) &&
  isNetmask w (netNetmask w p) && isHostmask (netHostmask w p) &&
  (decide (p = 0 ∨ p = w) || !isNetmask w (netHostmask w p)) &&
  ((netmaskToPrefix ver).lookup (netNetmask w p) == some p) &&
  ((hostmaskToPrefix ver).lookup (netHostmask w p) == some p) &&
  ((prefixToNetmask ver).lookup p == some (netNetmask w p)) &&
  ((netmaskToPrefix ver).lookup (netHostmask w 0) == some w) &&
  ((netmaskToPrefix ver).lookup (netHostmask w w) == some 0) &&
  isNetmask w (netHostmask w 0) && isNetmask w (netHostmask w w)

theorem maskFacts4 : ∀ p, p < 33 → maskFacts 4 32 p = true := by decide +kernel
theorem maskFacts6 : ∀ p, p < 129 → maskFacts 6 128 p = true := by decide +kernel

theorem maskFacts_all (ver : Nat) (hver : VerOK ver) (p : Nat) (hp : p ≤ width ver) :
    maskFacts ver (width ver) p = true := by
  rcases hver with h | h <;> subst h
  · exact maskFacts4 p (by simp [width] at hp; omega)
  · exact maskFacts6 p (by simp [width] at hp; omega)

theorem applyNohost_ok (ver : Nat) (hver : VerOK ver) (fl v p : Nat) (hp : p ≤ width ver) :
    applyNohost ver fl v p =
      .ok (if hasFlag fl NOHOST then v &&& netNetmask (width ver) p else v, p) := by
  have hf := maskFacts_all ver hver p hp
  simp only [maskFacts, Bool.and_eq_true, beq_iff_eq] at hf
  unfold applyNohost
  by_cases h : hasFlag fl NOHOST = true
  · simp only [h, if_true, hf.1.1.1.1.2]
  · simp [h]

/-- the prefix part as a decimal numeral -/
theorem resolve_dec (be : Backend) (ver p : Nat) : resolvePrefix be ver (some (dec p)) = .ok (p : Int) := by
  simp [resolvePrefix, pyInt_dec]

theorem resolve_none (be : Backend) (ver : Nat) : resolvePrefix be ver none = .ok (width ver : Int) := rfl

/-- the prefix part as the text of a mask value `m` -/
theorem resolve_mask (be : Backend) (ver : Nat) (hver : VerOK ver) (m : Nat) (hm : m < 2 ^ width ver) :
    resolvePrefix be ver (some (intToStr be ver m)) =
      if isNetmask (width ver) m then
        (match (netmaskToPrefix ver).lookup m with | some p => .ok (p : Int) | none => .error .key)
      else if isHostmask m then
        (match (hostmaskToPrefix ver).lookup m with | some p => .ok (p : Int) | none => .error .key)
      else .error .addrFormat := by
  unfold resolvePrefix
  simp only [pyInt_addr be ver hver m hm, addr_rt be ver hver m hm]
  split <;> rfl

end NV.C03L
