/-
Lemmas/IPSetL3.lean — membership-level facts about the dictionary operations on states of
good keys, and the sibling-merge loop of `_compact_single_network` (C06).
-/
import NetaddrVerif.Lemmas.IPSetL2
namespace NV.IPSet
open NV NV.Blk

theorem mem_dDel (s : St) (hg : ∀ n ∈ s, Good n) (k : Net) (hk : Good k) (n : Net) :
    n ∈ dDel s k ↔ n ∈ s ∧ n ≠ k := by
  unfold dDel
  simp only [List.mem_filter, Bool.not_eq_eq_eq_not, Bool.not_true]
  constructor
  · rintro ⟨h1, h2⟩
    refine ⟨h1, fun e => ?_⟩
    subst e; rw [keyEq_refl] at h2; exact absurd h2 (by simp)
  · rintro ⟨h1, h2⟩
    refine ⟨h1, ?_⟩
    cases h : keyEq n k with
    | false => rfl
    | true => exact absurd ((keyEq_good n k (hg n h1) hk).1 h) h2

theorem mem_dInsert (s : St) (hg : ∀ n ∈ s, Good n) (k : Net) (hk : Good k) (n : Net) :
    n ∈ dInsert s k ↔ n ∈ s ∨ n = k := by
  unfold dInsert
  split
  · rename_i h
    have hks := (dMem_good s hg k hk).1 h
    constructor
    · intro h1; exact Or.inl h1
    · rintro (h1 | h1)
      · exact h1
      · exact h1 ▸ hks
  · simp

theorem good_dDel (s : St) (hg : ∀ n ∈ s, Good n) (k : Net) : ∀ n ∈ dDel s k, Good n := by
  intro n hn; unfold dDel at hn; exact hg n (List.mem_filter.1 hn).1

theorem good_dInsert (s : St) (hg : ∀ n ∈ s, Good n) (k : Net) (hk : Good k) : ∀ n ∈ dInsert s k, Good n := by
  intro n hn
  rcases (mem_dInsert s hg k hk n).1 hn with h | h
  · exact hg n h
  · exact h ▸ hk

theorem nodup_dDel (s : St) (hn : s.Nodup) (k : Net) : (dDel s k).Nodup := by
  unfold dDel; exact hn.filter _

theorem nodup_dInsert (s : St) (hg : ∀ n ∈ s, Good n) (hn : s.Nodup) (k : Net) (hk : Good k) :
    (dInsert s k).Nodup := by
  unfold dInsert
  split
  · exact hn
  · rename_i h
    have hks : k ∉ s := fun hm => h ((dMem_good s hg k hk).2 hm)
    rw [List.nodup_append]
    refine ⟨hn, by simp, ?_⟩
    intro a ha b hb
    simp at hb; subst hb
    intro e; subst e; exact hks ha

theorem canonset_subset {l l' : List Blk} (h : CanonSet l) (hs : ∀ b ∈ l', b ∈ l) : CanonSet l' :=
  ⟨fun b hb => h.al b (hs b hb), fun b hb c hc => h.dj b (hs b hb) c (hs c hc),
   fun b hb c hc => h.ns b (hs b hb) c (hs c hc)⟩

theorem canonset_congr {l l' : List Blk} (h : CanonSet l) (hs : ∀ b, b ∈ l' ↔ b ∈ l) : CanonSet l' :=
  canonset_subset h (fun b hb => (hs b).1 hb)

theorem den_congr {l l' : List Blk} (hs : ∀ b, b ∈ l' ↔ b ∈ l) (a : Nat) : den l' a ↔ den l a := by
  unfold den
  constructor
  · rintro ⟨b, hb, h⟩; exact ⟨b, (hs b).1 hb, h⟩
  · rintro ⟨b, hb, h⟩; exact ⟨b, (hs b).2 hb, h⟩

/-- different good keys of one family denote different blocks -/
theorem blk_ne (a b : Net) (ha : Good a) (hb : Good b) (hv : a.ver = b.ver) (hne : a ≠ b) : blk a ≠ blk b := by
  intro e
  exact hne ((keyEq_good a b ha hb).1 ((keyEq_iff a b ha.1 hb.1).2 ⟨hv, e⟩))

/-- a network whose value is a multiple of its block size is host-bit-free -/
theorem good_of_aligned (n : Net) (h : n.WF) (hal : n.val % 2 ^ (width n.ver - n.plen) = 0) : Good n := by
  refine ⟨h, ?_⟩
  rw [first_eq n h]
  have := Nat.div_add_mod' n.val (2 ^ (width n.ver - n.plen))
  omega

theorem good_aligned (n : Net) (h : Good n) : n.val % 2 ^ (width n.ver - n.plen) = 0 := by
  have := h.2
  rw [first_eq n h.1] at this
  rw [this]; exact Nat.mul_mod_left _ _

theorem blk_good (n : Net) (h : Good n) : blk n = ⟨n.val, width n.ver - n.plen⟩ := by
  unfold blk; rw [← h.2]

/-- `previous()` / `next()` candidate computed by the merge loop -/
def candOf (a : Net) : Net :=
  if (a.val >>> (width a.ver - a.plen)) % 2 = 1 then
    ⟨a.ver, netNetwork (width a.ver) a.val a.plen - 2 ^ (width a.ver - a.plen), a.plen⟩
  else ⟨a.ver, netNetwork (width a.ver) a.val a.plen + 2 ^ (width a.ver - a.plen), a.plen⟩

/-- the merged network computed by the merge loop -/
def mergedOf (a : Net) : Net :=
  ⟨a.ver, (a.val >>> (width a.ver - a.plen + 1)) <<< (width a.ver - a.plen + 1), a.plen - 1⟩

/-- the candidate of the merge loop is the sibling block, as a good key -/
theorem cand_spec (a : Net) (ha : Good a) (hp : 1 ≤ a.plen) :
    Good (candOf a) ∧ (candOf a).ver = a.ver ∧ blk (candOf a) = sibling (blk a) := by
  generalize hwd : width a.ver = w
  generalize hkd : w - a.plen = k
  have hcand : candOf a = if (a.val >>> k) % 2 = 1 then ⟨a.ver, netNetwork w a.val a.plen - 2 ^ k, a.plen⟩
                      else ⟨a.ver, netNetwork w a.val a.plen + 2 ^ k, a.plen⟩ := by
    unfold candOf; rw [hwd, hkd]
  rw [hcand]
  have hal := good_aligned a ha
  have hblk : blk a = ⟨a.val, k⟩ := by rw [blk_good a ha, hwd, hkd]
  obtain ⟨⟨hver, hv, hpl⟩, hfirst⟩ := ha
  rw [hwd] at hv hpl hal; rw [hkd] at hal
  have hnet : netNetwork w a.val a.plen = a.val := by rw [← hwd]; exact hfirst.symm
  have hk : 0 < 2 ^ k := pw k
  have e1 : 2 ^ (k + 1) = 2 ^ k * 2 := by rw [Nat.pow_succ]
  have ew : 2 ^ w = 2 ^ k * 2 ^ a.plen := by
    rw [← Nat.pow_add]; congr 1; omega
  have ep : 2 ^ a.plen = 2 * 2 ^ (a.plen - 1) := by
    have : a.plen = (a.plen - 1) + 1 := by omega
    rw [this, Nat.pow_succ]; simp; omega
  obtain ⟨q, hq⟩ := Nat.dvd_of_mod_eq_zero hal
  have hq' : a.val = 2 ^ k * q := hq
  have hqlt : q < 2 ^ a.plen := by
    have : 2 ^ k * q < 2 ^ k * 2 ^ a.plen := by rw [← hq', ← ew]; exact hv
    exact Nat.lt_of_mul_lt_mul_left this
  have hbit : (a.val >>> k) % 2 = q % 2 := by
    rw [Nat.shiftRight_eq_div_pow, hq', Nat.mul_div_cancel_left _ hk]
  have hmod : a.val % 2 ^ (k + 1) = 2 ^ k * (q % 2) := by
    rw [e1, hq', Nat.mul_mod_mul_left]
  by_cases hb : (a.val >>> k) % 2 = 1
  · -- upper half: sibling is below
    simp only [hb, if_true, hnet]
    have hq1 : q % 2 = 1 := by rw [← hbit]; exact hb
    have hge : 2 ^ k ≤ a.val := by rw [hq']; exact Nat.le_mul_of_pos_right _ (by omega)
    have hcal : (a.val - 2 ^ k) % 2 ^ k = 0 := by
      have : a.val - 2 ^ k = 2 ^ k * (q - 1) := by rw [hq', Nat.mul_sub_one]
      rw [this]; exact Nat.mul_mod_right _ _
    have hcw : (⟨a.ver, a.val - 2 ^ k, a.plen⟩ : Net).WF :=
      ⟨hver, by show a.val - 2 ^ k < 2 ^ width a.ver; rw [hwd]; omega, by show a.plen ≤ width a.ver; rw [hwd]; exact hpl⟩
    have hcg := good_of_aligned _ hcw (by show (a.val - 2 ^ k) % 2 ^ (width a.ver - a.plen) = 0; rw [hwd, hkd]; exact hcal)
    refine ⟨hcg, trivial, ?_⟩
    rw [blk_good _ hcg, hblk]
    show (⟨a.val - 2 ^ k, width a.ver - a.plen⟩ : Blk) = _
    rw [hwd, hkd]
    unfold sibling
    have : ¬ (a.val % 2 ^ (k + 1) = 0) := by rw [hmod, hq1]; omega
    simp only [this, if_false]
  · -- lower half: sibling is above
    simp only [hb, if_false, hnet]
    have hq0 : q % 2 = 0 := by
      have := Nat.mod_two_eq_zero_or_one q; rw [hbit] at hb; omega
    have hlt : a.val + 2 ^ k < 2 ^ w := by
      have : q + 1 < 2 ^ a.plen := by omega
      calc a.val + 2 ^ k = 2 ^ k * (q + 1) := by rw [hq', Nat.mul_add, Nat.mul_one]
        _ < 2 ^ k * 2 ^ a.plen := Nat.mul_lt_mul_of_pos_left this hk
        _ = 2 ^ w := ew.symm
    have hcal : (a.val + 2 ^ k) % 2 ^ k = 0 := by
      rw [Nat.add_mod, hal]; simp
    have hcw : (⟨a.ver, a.val + 2 ^ k, a.plen⟩ : Net).WF :=
      ⟨hver, by show a.val + 2 ^ k < 2 ^ width a.ver; rw [hwd]; exact hlt, by show a.plen ≤ width a.ver; rw [hwd]; exact hpl⟩
    have hcg := good_of_aligned _ hcw (by show (a.val + 2 ^ k) % 2 ^ (width a.ver - a.plen) = 0; rw [hwd, hkd]; exact hcal)
    refine ⟨hcg, trivial, ?_⟩
    rw [blk_good _ hcg, hblk]
    show (⟨a.val + 2 ^ k, width a.ver - a.plen⟩ : Blk) = _
    rw [hwd, hkd]
    unfold sibling
    have : a.val % 2 ^ (k + 1) = 0 := by rw [hmod, hq0]; simp
    simp only [this, if_true]

/-- the merged network of the loop is the parent block, as a good key -/
theorem merged_spec (a : Net) (ha : Good a) (hp : 1 ≤ a.plen) :
    Good (mergedOf a) ∧ blk (mergedOf a) = (blk a).parent ∧ (mergedOf a).ver = a.ver ∧
    (mergedOf a).plen = a.plen - 1 := by
  generalize hkd : width a.ver - a.plen = k
  generalize had : mergedOf a = a'
  have hav : a'.ver = a.ver := by rw [← had]; rfl
  have hap : a'.plen = a.plen - 1 := by rw [← had]; rfl
  have hval0 : a'.val = (a.val >>> (k + 1)) <<< (k + 1) := by rw [← had, ← hkd]; rfl
  obtain ⟨⟨hver, hv, hpl⟩, hfirst⟩ := ha
  have hk1 : width a.ver - (a.plen - 1) = k + 1 := by omega
  have hval : a'.val = a.val / 2 ^ (k + 1) * 2 ^ (k + 1) := by rw [hval0]; exact shr_shl _ _
  have hle : a'.val ≤ a.val := by rw [hval]; exact Nat.div_mul_le_self _ _
  have hw : a'.WF := ⟨by rw [hav]; exact hver, by rw [hav]; omega, by rw [hav, hap]; omega⟩
  have hal : a'.val % 2 ^ (width a'.ver - a'.plen) = 0 := by
    rw [hav, hap, hk1, hval]; exact Nat.mul_mod_left _ _
  have hg := good_of_aligned a' hw hal
  refine ⟨hg, ?_, hav, hap⟩
  rw [blk_good a' hg, blk_good a ⟨⟨hver, hv, hpl⟩, hfirst⟩, hav, hap, hk1, hval, hkd]; rfl

end NV.IPSet
