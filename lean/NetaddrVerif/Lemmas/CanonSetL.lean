/-
Lemmas/CanonSetL.lean — the order-free version of canonical-list uniqueness: two unordered
canonical block sets with the same denotation have the same members; an aligned block covered
by a canonical set lies inside a single member.
-/
import NetaddrVerif.Lemmas.Canon
import NetaddrVerif.Lemmas.MergeUp
namespace NV
open Blk

theorem canonset_mem_maximal (l : List Blk) (hc : CanonSet l) (b : Blk) (hb : b ∈ l) :
    Maximal (den l) b := by
  refine ⟨hc.al b hb, fun a ha => ⟨b, hb, ha⟩, ?_⟩
  intro hcov
  obtain ⟨s, hsa, hsk, hsib, hsp⟩ := sib_parent_cover b (hc.al b hb)
  have hns : s ∉ l := by
    intro hs
    rcases hsib with h | h
    · exact hc.ns b hb s hs h
    · exact hc.ns s hs b hb h
  have : ∃ x ∈ l, ∃ y ∈ l, x.sib y := by
    apply covered_strict_imp_sib l hc.al s.k s rfl hsa
    intro a ha
    obtain ⟨c, hcl, hca⟩ := hcov a (hsp a ha)
    refine ⟨c, hcl, hca, ?_⟩
    rcases Nat.lt_trichotomy c.k s.k with hlt | heq | hgt
    · exact hlt
    · exfalso
      exact hns ((eq_of_share c s (hc.al c hcl) hsa heq a hca ha) ▸ hcl)
    · exfalso
      have hpk : b.parent.k ≤ c.k := by simp [parent]; omega
      have hsub := sub_of_share b.parent c (parent_aligned b) (hc.al c hcl) hpk a (hsp a ha) hca
      have hbc : b ≠ c := by intro e; rw [e] at hsk; omega
      exact hc.dj b hb c hcl hbc b.base ⟨mem_base b, hsub _ (sub_parent b (hc.al b hb) _ (mem_base b))⟩
  obtain ⟨x, hx, y, hy, hxy⟩ := this
  exact hc.ns x hx y hy hxy

/-- an aligned block covered by a canonical set lies inside one member -/
theorem covered_imp_single (l : List Blk) (hc : CanonSet l) (q : Blk) (hq : q.aligned)
    (hcov : ∀ a, q.mem a → den l a) : ∃ c ∈ l, q.sub c := by
  -- either some member meeting q is at least as large as q (then it contains q) …
  by_cases hbig : ∃ d ∈ l, ∃ a, q.mem a ∧ d.mem a ∧ q.k ≤ d.k
  · obtain ⟨d, hd, a, hqa, hda, hk⟩ := hbig
    exact ⟨d, hd, sub_of_share q d hq (hc.al d hd) hk a hqa hda⟩
  · -- … or q is covered by strictly smaller members, which forces a sibling pair
    exfalso
    have : ∃ x ∈ l, ∃ y ∈ l, x.sib y := by
      apply covered_strict_imp_sib l hc.al q.k q rfl hq
      intro a ha
      obtain ⟨d, hd, hda⟩ := hcov a ha
      refine ⟨d, hd, hda, ?_⟩
      rcases Nat.lt_or_ge d.k q.k with h | h
      · exact h
      · exact absurd ⟨d, hd, a, ha, hda, h⟩ hbig
    obtain ⟨x, hx, y, hy, hxy⟩ := this
    exact hc.ns x hx y hy hxy

theorem maximal_mem_canonset (l : List Blk) (hc : CanonSet l) (b : Blk) (hm : Maximal (den l) b) :
    b ∈ l := by
  obtain ⟨hba, hsub, hnp⟩ := hm
  obtain ⟨c, hcl, hbc⟩ := covered_imp_single l hc b hba hsub
  -- c contains b; if c were larger it would contain the parent of b
  rcases Nat.lt_trichotomy c.k b.k with hlt | heq | hgt
  · exfalso
    -- b ⊆ c with c smaller: impossible (sizes)
    have h1 := hbc b.base (mem_base b)
    have h2 := hbc (b.base + 2 ^ b.k - 1) ⟨by have := pow_pos' b.k; omega, by have := pow_pos' b.k; omega⟩
    have : 2 ^ c.k < 2 ^ b.k := Nat.pow_lt_pow_right (by decide) hlt
    unfold mem at h1 h2; omega
  · exact (eq_of_share c b (hc.al c hcl) hba heq b.base (hbc _ (mem_base b)) (mem_base b)) ▸ hcl
  · exfalso
    apply hnp
    intro x hx
    have hpk : b.parent.k ≤ c.k := by simp [parent]; omega
    exact ⟨c, hcl, sub_of_share b.parent c (parent_aligned b) (hc.al c hcl) hpk b.base
      (sub_parent b hba _ (mem_base b)) (hbc _ (mem_base b)) x hx⟩

/-- unordered canonical sets with the same denotation have the same members -/
theorem canonset_ext (l₁ l₂ : List Blk) (h1 : CanonSet l₁) (h2 : CanonSet l₂)
    (hd : ∀ a, den l₁ a ↔ den l₂ a) (b : Blk) : b ∈ l₁ ↔ b ∈ l₂ := by
  have hS : den l₁ = den l₂ := funext fun a => propext (hd a)
  constructor
  · intro hb; exact maximal_mem_canonset l₂ h2 b (hS ▸ canonset_mem_maximal l₁ h1 b hb)
  · intro hb; exact maximal_mem_canonset l₁ h1 b (hS ▸ canonset_mem_maximal l₂ h2 b hb)

end NV
