/-
Lemmas/C19LKey.lean — which identifier the index parsers read off a record: the first token of
the `(hex)` line (and of the `(base 16)` line for IAB), hyphens removed, as a hexadecimal numeral.
-/
import NetaddrVerif.Model.Registry
namespace NV.Registry

/-- the 22 ASCII hex digit bytes `0-9A-Fa-f` -/
def hexDigitsB : List Nat :=
  [48, 49, 50, 51, 52, 53, 54, 55, 56, 57, 65, 66, 67, 68, 69, 70, 97, 98, 99, 100, 101, 102]

/-- value of a hex digit byte -/
def hexValB (b : Nat) : Nat := if b ≤ 57 then b - 48 else if b ≤ 70 then b - 55 else b - 87

/-- value of a string of hex digit bytes, most significant first -/
def hexValue (ds : List Nat) : Nat := ds.foldl (fun acc b => acc * 16 + hexValB b) 0

theorem hexDigit_facts : ∀ b ∈ hexDigitsB,
    Py.digitVal 16 (Char.ofNat b) = some (hexValB b) ∧ Py.isWs (Char.ofNat b) = false ∧
    (Char.ofNat b == '_') = false ∧ (Char.ofNat b == '+') = false ∧ (Char.ofNat b == '-') = false ∧
    (['x', 'X'].contains (Char.ofNat b)) = false ∧ decide ((Char.ofNat b).toNat > 127) = false ∧
    isWsB b = false ∧ (b != 45) = true := by decide

theorem digitsVal_hex (ds : List Nat) (h : ∀ b ∈ ds, b ∈ hexDigitsB) : ∀ (acc : Nat) (prev : Bool),
    (ds ≠ [] ∨ prev = true) →
    Py.digitsVal 16 (toChars ds) acc prev = some (ds.foldl (fun a b => a * 16 + hexValB b) acc) := by
  induction ds with
  | nil => intro acc prev hp; simp_all [toChars, Py.digitsVal]
  | cons b t ih =>
    intro acc prev _
    obtain ⟨h1, _, h3, _⟩ := hexDigit_facts b (h b (by simp))
    simp only [toChars, List.map_cons, Py.digitsVal, h3, Bool.false_eq_true, ↓reduceIte, h1, List.foldl_cons]
    exact ih (fun x hx => h x (by simp [hx])) _ true (Or.inr rfl)

theorem dropWhile_none {α : Type} (p : α → Bool) (l : List α) (h : ∀ x ∈ l, p x = false) : l.dropWhile p = l := by
  cases l with
  | nil => rfl
  | cons a t => simp [List.dropWhile, h a (by simp)]

/-- `int(b, 16)` on a non-empty string of hex digits is its value -/
theorem intHex_hex (ds : List Nat) (h : ∀ b ∈ ds, b ∈ hexDigitsB) (hne : ds ≠ []) :
    intHex ds = .ok (hexValue ds : Int) := by
  have hws : ∀ c ∈ toChars ds, Py.isWs c = false := by
    intro c hc
    simp only [toChars, List.mem_map] at hc
    obtain ⟨b, hb, rfl⟩ := hc
    exact (hexDigit_facts b (h b hb)).2.1
  have hany : (toChars ds).any (fun c => decide (c.toNat > 127)) = false := by
    simp only [List.any_eq_false, toChars, List.mem_map]
    rintro c ⟨b, hb, rfl⟩
    have := (hexDigit_facts b (h b hb)).2.2.2.2.2.2.1
    simpa using this
  have hstrip : Py.stripWs (toChars ds) = toChars ds := by
    unfold Py.stripWs
    rw [dropWhile_none _ _ hws, dropWhile_none _ _ (fun c hc => hws c (by simpa using hc)), List.reverse_reverse]
  cases ds with
  | nil => exact absurd rfl hne
  | cons b t =>
    obtain ⟨_, _, _, hplus, hminus, _⟩ := hexDigit_facts b (h b (by simp))
    have hdv := digitsVal_hex (b :: t) h 0 false (Or.inl (by simp))
    unfold intHex Py.pyInt
    simp only [hany, Bool.false_eq_true, ↓reduceIte, hstrip]
    simp only [toChars, List.map_cons] at hdv ⊢
    simp only [hplus, hminus, Bool.false_eq_true, ↓reduceIte]
    simp only [Nat.reduceEqDiff, ↓reduceIte]
    cases t with
    | nil =>
      simp only [List.map_nil] at hdv ⊢
      simp [hdv, hexValue]
    | cons b2 t2 =>
      have hb2 := (hexDigit_facts b2 (h b2 (by simp))).2.2.2.2.2.1
      simp only [List.map_cons] at hdv ⊢
      have hb2' : ¬ (Char.ofNat b2 = 'x' ∨ Char.ofNat b2 = 'X') := by simpa using hb2
      have hb := h b (by simp)
      simp only [hexDigitsB, List.mem_cons, List.not_mem_nil, or_false] at hb
      rcases hb with rfl | rfl | rfl | rfl | rfl | rfl | rfl | rfl | rfl | rfl | rfl | rfl | rfl | rfl | rfl | rfl |
        rfl | rfl | rfl | rfl | rfl | rfl
      all_goals (simp only [show Char.ofNat 48 = '0' from rfl, show Char.ofNat 49 = '1' from rfl, show Char.ofNat 50 = '2' from rfl, show Char.ofNat 51 = '3' from rfl, show Char.ofNat 52 = '4' from rfl, show Char.ofNat 53 = '5' from rfl, show Char.ofNat 54 = '6' from rfl, show Char.ofNat 55 = '7' from rfl, show Char.ofNat 56 = '8' from rfl, show Char.ofNat 57 = '9' from rfl, show Char.ofNat 65 = 'A' from rfl, show Char.ofNat 66 = 'B' from rfl, show Char.ofNat 67 = 'C' from rfl, show Char.ofNat 68 = 'D' from rfl, show Char.ofNat 69 = 'E' from rfl, show Char.ofNat 70 = 'F' from rfl, show Char.ofNat 97 = 'a' from rfl, show Char.ofNat 98 = 'b' from rfl, show Char.ofNat 99 = 'c' from rfl, show Char.ofNat 100 = 'd' from rfl, show Char.ofNat 101 = 'e' from rfl, show Char.ofNat 102 = 'f' from rfl] at hdv ⊢; simp [hb2', hdv, hexValue])

theorem dropWhile_prefix {α : Type} (p : α → Bool) (pre l : List α) (h : ∀ x ∈ pre, p x = true) :
    (pre ++ l).dropWhile p = l.dropWhile p := by
  induction pre with
  | nil => rfl
  | cons a t ih =>
    simp only [List.cons_append, List.dropWhile, h a (by simp)]
    exact ih (fun x hx => h x (by simp [hx]))

theorem takeWhile_prefix {α : Type} (p : α → Bool) (tok rest : List α) (h : ∀ x ∈ tok, p x = true)
    (hr : rest = [] ∨ ∃ s r, rest = s :: r ∧ p s = false) : (tok ++ rest).takeWhile p = tok := by
  induction tok with
  | nil =>
    rcases hr with rfl | ⟨s, r, rfl, hs⟩
    · rfl
    · simp [hs]
  | cons a t ih =>
    simp only [List.cons_append, List.takeWhile, h a (by simp)]
    rw [ih (fun x hx => h x (by simp [hx]))]

theorem mem_takeWhile {α : Type} (p : α → Bool) (l : List α) (x : α) (h : x ∈ l.takeWhile p) :
    p x = true ∧ x ∈ l := by
  induction l with
  | nil => simp at h
  | cons a t ih =>
    simp only [List.takeWhile] at h
    by_cases ha : p a = true
    · simp only [ha] at h
      rcases List.mem_cons.mp h with rfl | h'
      · exact ⟨ha, by simp⟩
      · exact ⟨(ih h').1, by simp [(ih h').2]⟩
    · simp [ha] at h

/-- `line.split()[0]`: leading whitespace, then a whitespace-free token, then whitespace or the
    end of the line -/
theorem firstTok_spec (pre tok rest : List Nat) (hpre : ∀ b ∈ pre, isWsB b = true)
    (htok : ∀ b ∈ tok, isWsB b = false) (hne : tok ≠ [])
    (hrest : rest = [] ∨ ∃ s r, rest = s :: r ∧ isWsB s = true) :
    firstTok (pre ++ tok ++ rest) = .ok tok := by
  unfold firstTok
  rw [List.append_assoc, dropWhile_prefix _ _ _ hpre]
  have h1 : (tok ++ rest).dropWhile isWsB = tok ++ rest := by
    cases tok with
    | nil => exact absurd rfl hne
    | cons a t => simp [htok a (by simp)]
  rw [h1, takeWhile_prefix _ tok rest (fun x hx => by simp [htok x hx])
    (by rcases hrest with rfl | ⟨s, r, rfl, hs⟩
        · exact Or.inl rfl
        · exact Or.inr ⟨s, r, rfl, by simp [hs]⟩)]
  cases tok with
  | nil => exact absurd rfl hne
  | cons a t => rfl

/-- an identifier token: hex digits and hyphens -/
def IdTok (tok : List Nat) : Prop := ∀ b ∈ tok, b = 45 ∨ b ∈ hexDigitsB

theorem IdTok.noWs {tok : List Nat} (h : IdTok tok) : ∀ b ∈ tok, isWsB b = false := by
  intro b hb
  rcases h b hb with rfl | hx
  · decide
  · exact (hexDigit_facts b hx).2.2.2.2.2.2.2.1

theorem IdTok.dropHyphens_hex {tok : List Nat} (h : IdTok tok) : ∀ b ∈ dropHyphens tok, b ∈ hexDigitsB := by
  intro b hb
  simp only [dropHyphens, List.mem_filter, bne_iff_ne, ne_eq] at hb
  rcases h b hb.1 with rfl | hx
  · exact absurd rfl hb.2
  · exact hx

/-- **OUI identifier**: for a `(hex)` line `ws* TOKEN (ws …)?` whose token consists of hex digits
    and hyphens (at least one digit), the row key is the token's hexadecimal value -/
theorem ouiStart_spec (pre tok rest : List Nat) (hpre : ∀ b ∈ pre, isWsB b = true) (hid : IdTok tok)
    (hne : dropHyphens tok ≠ []) (hrest : rest = [] ∨ ∃ s r, rest = s :: r ∧ isWsB s = true) :
    ouiStart (pre ++ tok ++ rest) = .ok (hexValue (dropHyphens tok) : Int) := by
  have htne : tok ≠ [] := by intro h; subst h; exact hne rfl
  unfold ouiStart
  rw [firstTok_spec pre tok rest hpre hid.noWs htne hrest]
  simp only [bind, Except.bind]
  exact intHex_hex _ hid.dropHyphens_hex hne

/-- **IAB identifier**: the `(hex)` line gave the token `p`; a `(base 16)` line
    `ws* TOKEN (ws …)?` with an identifier token turns the key into
    `hex(p without hyphens ++ TOKEN up to its first hyphen) >> 12` -/
theorem iabCont_spec (p : List Nat) (hp : IdTok p) (pre tok rest : List Nat)
    (hb : hasBase16 (pre ++ tok ++ rest) = true)
    (hpre : ∀ b ∈ pre, isWsB b = true) (hid : IdTok tok) (htne : tok ≠ [])
    (hne : dropHyphens p ++ tok.takeWhile (· != 45) ≠ [])
    (hrest : rest = [] ∨ ∃ s r, rest = s :: r ∧ isWsB s = true) :
    iabCont (.raw p) (pre ++ tok ++ rest) =
      .ok (.num ((hexValue (dropHyphens p ++ tok.takeWhile (· != 45)) : Int) >>> 12)) := by
  unfold iabCont
  simp only [hb, ↓reduceIte]
  rw [firstTok_spec pre tok rest hpre hid.noWs htne hrest]
  simp only [bind, Except.bind]
  have hall : ∀ b ∈ dropHyphens p ++ tok.takeWhile (· != 45), b ∈ hexDigitsB := by
    intro b hb
    rcases List.mem_append.mp hb with h1 | h2
    · exact hp.dropHyphens_hex b h1
    · obtain ⟨hm, hin⟩ := mem_takeWhile _ _ _ h2
      rcases hid b hin with rfl | hx
      · simp at hm
      · exact hx
  rw [intHex_hex _ hall hne]
  rfl

/-- byte of the upper-case hex digit of `n < 16` -/
def upHex (n : Nat) : Nat := if n < 10 then 48 + n else 55 + n

/-- `"%02X-%02X-%02X" % (p >> 16 & 0xff, p >> 8 & 0xff, p & 0xff)`: how the registry prints an OUI -/
def fmtOui (p : Nat) : List Nat :=
  [upHex (p / 2 ^ 20 % 16), upHex (p / 2 ^ 16 % 16), 45, upHex (p / 2 ^ 12 % 16), upHex (p / 2 ^ 8 % 16), 45,
   upHex (p / 2 ^ 4 % 16), upHex (p % 16)]

theorem upHex_facts : ∀ n, n < 16 → upHex n ∈ hexDigitsB ∧ hexValB (upHex n) = n ∧ (upHex n != 45) = true := by
  decide

theorem fmtOui_idTok (p : Nat) : IdTok (fmtOui p) := by
  intro b hb
  simp only [fmtOui, List.mem_cons, List.not_mem_nil, or_false] at hb
  have m : ∀ x, x % 16 < 16 := fun x => Nat.mod_lt _ (by decide)
  rcases hb with rfl | rfl | rfl | rfl | rfl | rfl | rfl | rfl
  all_goals first | exact Or.inl rfl | exact Or.inr (upHex_facts _ (m _)).1

theorem fmtOui_value (p : Nat) (hp : p < 2 ^ 24) : hexValue (dropHyphens (fmtOui p)) = p := by
  have m : ∀ x, x % 16 < 16 := fun x => Nat.mod_lt _ (by decide)
  have f := fun x => upHex_facts (x % 16) (m x)
  simp only [fmtOui, dropHyphens, List.filter, (f _).2.2, show ((45 : Nat) != 45) = false from rfl,
    hexValue, List.foldl, (f _).2.1]
  omega

/-- **the key of a canonically printed OUI record is the OUI**: a `(hex)` line that starts with
    `XX-XX-XX` followed by whitespace yields exactly the 24-bit value it prints -/
theorem ouiStart_canonical (p : Nat) (hp : p < 2 ^ 24) (s : Nat) (hs : isWsB s = true) (rest : List Nat) :
    ouiStart (fmtOui p ++ s :: rest) = .ok (p : Int) := by
  have h := ouiStart_spec [] (fmtOui p) (s :: rest) (by simp) (fmtOui_idTok p)
    (by
      intro h0
      have := fmtOui_value p hp
      rw [h0] at this
      have hne : dropHyphens (fmtOui p) ≠ [] := by
        simp only [fmtOui, dropHyphens, List.filter, (upHex_facts _ (Nat.mod_lt _ (by decide))).2.2]
        simp
      exact hne h0)
    (Or.inr ⟨s, rest, rfl, hs⟩)
  simp only [List.nil_append] at h
  rw [h, fmtOui_value p hp]

/-- six upper-case hex digits of `v < 2^24` (how the registry prints the start of an IAB range) -/
def fmtHex6 (v : Nat) : List Nat :=
  [upHex (v / 2 ^ 20 % 16), upHex (v / 2 ^ 16 % 16), upHex (v / 2 ^ 12 % 16), upHex (v / 2 ^ 8 % 16),
   upHex (v / 2 ^ 4 % 16), upHex (v % 16)]

theorem fmtHex6_hex (v : Nat) : ∀ b ∈ fmtHex6 v, b ∈ hexDigitsB := by
  intro b hb
  simp only [fmtHex6, List.mem_cons, List.not_mem_nil, or_false] at hb
  have m : ∀ x, x % 16 < 16 := fun x => Nat.mod_lt _ (by decide)
  rcases hb with rfl | rfl | rfl | rfl | rfl | rfl
  all_goals exact (upHex_facts _ (m _)).1

theorem takeWhile_fmtHex6 (v : Nat) (tail : List Nat) :
    (fmtHex6 v ++ 45 :: tail).takeWhile (· != 45) = fmtHex6 v := by
  have m : ∀ x, x % 16 < 16 := fun x => Nat.mod_lt _ (by decide)
  have f := fun x => (upHex_facts (x % 16) (m x)).2.2
  simp [fmtHex6, List.takeWhile, f]

theorem hexValue_oui_hex6 (q v : Nat) (hq : q < 2 ^ 24) (hv : v < 2 ^ 24) :
    hexValue (dropHyphens (fmtOui q) ++ fmtHex6 v) = q * 2 ^ 24 + v := by
  have m : ∀ x, x % 16 < 16 := fun x => Nat.mod_lt _ (by decide)
  have f := fun x => upHex_facts (x % 16) (m x)
  simp only [fmtOui, fmtHex6, dropHyphens, List.filter, (f _).2.2, show ((45 : Nat) != 45) = false from rfl,
    hexValue, List.foldl, (f _).2.1, List.cons_append, List.nil_append]
  omega

/-- **the key of a canonically printed IAB record**: first line `XX-XX-XX …(hex)`, `(base 16)`
    line starting `YYYZZZ-…`: the key is the 36-bit number `XXXXXXYYY` -/
theorem iabCont_canonical (q v : Nat) (hq : q < 2 ^ 24) (hv : v < 2 ^ 24) (tail : List Nat) (htail : IdTok tail)
    (s : Nat) (hs : isWsB s = true) (rest : List Nat)
    (hb : hasBase16 (fmtHex6 v ++ 45 :: tail ++ s :: rest) = true) :
    iabCont (.raw (fmtOui q)) (fmtHex6 v ++ 45 :: tail ++ s :: rest) = .ok (.num ((q * 4096 + v / 4096 : Nat) : Int)) := by
  have hid : IdTok (fmtHex6 v ++ 45 :: tail) := by
    intro b hb
    rcases List.mem_append.mp hb with h1 | h2
    · exact Or.inr (fmtHex6_hex v b h1)
    · rcases List.mem_cons.mp h2 with rfl | h3
      · exact Or.inl rfl
      · exact htail b h3
  have h := iabCont_spec (fmtOui q) (fmtOui_idTok q) [] (fmtHex6 v ++ 45 :: tail) (s :: rest)
    (by simpa using hb) (by simp) hid (by simp [fmtHex6])
    (by rw [takeWhile_fmtHex6]; simp [fmtHex6]) (Or.inr ⟨s, rest, rfl, hs⟩)
  simp only [List.nil_append, takeWhile_fmtHex6, hexValue_oui_hex6 q v hq hv] at h
  rw [show fmtHex6 v ++ 45 :: tail ++ s :: rest = fmtHex6 v ++ 45 :: tail ++ s :: rest from rfl] at h ⊢
  rw [h]
  congr 2
  rw [Int.shiftRight_eq_div_pow]
  omega

end NV.Registry
