
namespace NV

-- Prototype: strict dotted quad print/parse round trip (core only)
def dec (n : Nat) : List Char := Nat.toDigits 10 n

def ntoa (v : Nat) : List Char :=
  ['.'].intercalate [dec (v / 16777216), dec (v / 65536 % 256), dec (v / 256 % 256), dec (v % 256)]

/-- glibc inet_pton4 octet rule: 1-3 decimal digits, no leading zero unless "0", value ≤ 255 -/
def octet (t : List Char) : Option Nat :=
  if 1 ≤ t.length ∧ t.length ≤ 3 ∧ t.all Char.isDigit ∧ (t.length = 1 ∨ t.head? ≠ some '0') then
    let v := Nat.ofDigitChars 10 t 0
    if v ≤ 255 then some v else none
  else none

def pton4 (s : List Char) : Option Nat :=
  match s.splitOn '.' with
  | [a, b, c, d] =>
    match octet a, octet b, octet c, octet d with
    | some a, some b, some c, some d => some (a * 16777216 + b * 65536 + c * 256 + d)
    | _, _, _, _ => none
  | _ => none

theorem octet_dec : ∀ n, n < 256 → octet (dec n) = some n := by decide +kernel
theorem dot_not_in_dec : ∀ n, n < 256 → '.' ∉ dec n := by decide +kernel

theorem pton4_ntoa (v : Nat) (hv : v < 2 ^ 32) : pton4 (ntoa v) = some v := by
  have h0 : v / 16777216 < 256 := by omega
  have h1 : v / 65536 % 256 < 256 := Nat.mod_lt _ (by decide)
  have h2 : v / 256 % 256 < 256 := Nat.mod_lt _ (by decide)
  have h3 : v % 256 < 256 := Nat.mod_lt _ (by decide)
  unfold pton4 ntoa
  rw [List.splitOn_intercalate]
  · simp only [octet_dec _ h0, octet_dec _ h1, octet_dec _ h2, octet_dec _ h3]
    congr 1; omega
  · intro l hl
    simp only [List.mem_cons, List.not_mem_nil, or_false] at hl
    rcases hl with e | e | e | e <;> subst e
    · exact dot_not_in_dec _ h0
    · exact dot_not_in_dec _ h1
    · exact dot_not_in_dec _ h2
    · exact dot_not_in_dec _ h3
  · simp


end NV
