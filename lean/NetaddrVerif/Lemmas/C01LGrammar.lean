/-
Lemmas/C01LGrammar.lean — an INDEPENDENT, declarative statement of the RFC 4291 section 2.2
text grammar of IPv6 addresses (`Rfc4291 s v`: the string `s` is a standard IPv6 text and denotes
the 128-bit number `v`), written without reference to the parser models: no splitting, no
trimming of empty tokens, no loop — only "the string IS groups joined by colons".

RFC 4291, 2.2:
 1. `x:x:x:x:x:x:x:x`, the `x` being one to four hexadecimal digits of the eight 16-bit pieces;
 2. `::` stands for one or more groups of 16 bits of zeros, and can appear only once; it can
    also stand for leading or trailing zeros;
 3. `x:x:x:x:x:x:d.d.d.d`, the `d` being the decimal values of the four low-order 8-bit pieces
    (standard IPv4 dotted quad: here the strict form, 1-3 digits, no leading zero, ≤ 255),
    also combinable with `::`.

This file: the definitions, positive examples, and the bridges from the grammar's notions to the
model's token readers (`hextet`, `octet`, `pton4`).  The equivalence with the parser model is in
C01LGrammar2.lean / C01LGrammar3.lean.  Core Lean only.
-/
import NetaddrVerif.Lemmas.C01LStrict6
namespace NV.C01G
open NV

/-! ## The grammar -/

def IsDecDigit (c : Char) : Prop := '0' ≤ c ∧ c ≤ '9'

def IsHexDigit (c : Char) : Prop := ('0' ≤ c ∧ c ≤ '9') ∨ ('a' ≤ c ∧ c ≤ 'f') ∨ ('A' ≤ c ∧ c ≤ 'F')

/-- value of a (hexa)decimal digit -/
def digitVal (c : Char) : Nat :=
  if '0' ≤ c ∧ c ≤ '9' then c.toNat - '0'.toNat
  else if 'a' ≤ c ∧ c ≤ 'f' then 10 + (c.toNat - 'a'.toNat)
  else 10 + (c.toNat - 'A'.toNat)

/-- positional value of a digit string: `d₁ d₂ … dₙ` is `d₁·baseⁿ⁻¹ + … + dₙ` -/
def numVal (base : Nat) : List Char → Nat
  | [] => 0
  | c :: r => digitVal c * base ^ r.length + numVal base r

/-- a group `x`: one to four hexadecimal digits -/
def IsGroup (t : List Char) : Prop := 1 ≤ t.length ∧ t.length ≤ 4 ∧ ∀ c ∈ t, IsHexDigit c

/-- a strict decimal octet `d`: one to three decimal digits, no leading zero (except "0"
    itself), value at most 255 -/
def IsOctet (t : List Char) : Prop :=
  1 ≤ t.length ∧ t.length ≤ 3 ∧ (∀ c ∈ t, IsDecDigit c) ∧ (2 ≤ t.length → t.head? ≠ some '0') ∧
    numVal 10 t ≤ 255

/-- `d.d.d.d` with its 32-bit value -/
def IsQuad (t : List Char) (x : Nat) : Prop :=
  ∃ a b c d, IsOctet a ∧ IsOctet b ∧ IsOctet c ∧ IsOctet d ∧
    t = a ++ '.' :: (b ++ '.' :: (c ++ '.' :: d)) ∧
    x = ((numVal 10 a * 256 + numVal 10 b) * 256 + numVal 10 c) * 256 + numVal 10 d

/-- pieces joined by single colons -/
def joinColon : List (List Char) → List Char
  | [] => []
  | [t] => t
  | t :: r => t ++ ':' :: joinColon r

/-- big-endian value of a list of 16-bit groups -/
def wordsVal : List Nat → Nat
  | [] => 0
  | w :: r => w * 65536 ^ r.length + wordsVal r

/-- the optional dotted-quad tail: `q` is its text as a list of no or one piece, `qw` the two
    16-bit groups it stands for -/
def IsTail (q : List (List Char)) (qw : List Nat) : Prop :=
  (q = [] ∧ qw = []) ∨ ∃ t x, IsQuad t x ∧ q = [t] ∧ qw = [x / 65536, x % 65536]

/-- forms 1 and 3 without `::` : eight groups' worth, all explicit -/
def Rfc4291Full (s : List Char) (v : Nat) : Prop :=
  ∃ (G q : List (List Char)) (qw : List Nat),
    (∀ t ∈ G, IsGroup t) ∧ IsTail q qw ∧
    s = joinColon (G ++ q) ∧
    G.length + qw.length = 8 ∧
    v = wordsVal (G.map (numVal 16) ++ qw)

/-- form 2 (with or without the dotted-quad tail): groups `A`, then `::`, then groups `B` and
    the optional tail; at most seven groups' worth explicit; the `::` is filled with zero groups -/
def Rfc4291Compressed (s : List Char) (v : Nat) : Prop :=
  ∃ (A B q : List (List Char)) (qw : List Nat),
    (∀ t ∈ A, IsGroup t) ∧ (∀ t ∈ B, IsGroup t) ∧ IsTail q qw ∧
    s = joinColon A ++ ':' :: ':' :: joinColon (B ++ q) ∧
    A.length + B.length + qw.length ≤ 7 ∧
    v = wordsVal (A.map (numVal 16) ++ List.replicate (8 - (A.length + B.length + qw.length)) 0
          ++ (B.map (numVal 16) ++ qw))

/-- **RFC 4291 section 2.2**: `s` is a standard IPv6 address text and `v` the address it denotes -/
def Rfc4291 (s : List Char) (v : Nat) : Prop := Rfc4291Full s v ∨ Rfc4291Compressed s v

/-! ## Positive examples (negative ones follow the equivalence theorem, in Props/C01.lean) -/

instance (c : Char) : Decidable (IsDecDigit c) := by unfold IsDecDigit; infer_instance
instance (c : Char) : Decidable (IsHexDigit c) := by unfold IsHexDigit; infer_instance
instance (t : List Char) : Decidable (IsGroup t) := by unfold IsGroup; infer_instance
instance (t : List Char) : Decidable (IsOctet t) := by unfold IsOctet; infer_instance

example : IsGroup "0".toList ∧ IsGroup "fFfF".toList ∧ ¬ IsGroup "".toList ∧ ¬ IsGroup "00000".toList
    ∧ ¬ IsGroup "12g".toList ∧ ¬ IsGroup "0x1".toList ∧ ¬ IsGroup " 1".toList := by decide
example : numVal 16 "fFfF".toList = 65535 ∧ numVal 16 "0db8".toList = 0xdb8 ∧ numVal 10 "255".toList = 255 := by decide
example : IsOctet "0".toList ∧ IsOctet "255".toList ∧ ¬ IsOctet "256".toList ∧ ¬ IsOctet "01".toList
    ∧ ¬ IsOctet "".toList ∧ ¬ IsOctet "0000".toList ∧ ¬ IsOctet "1a".toList := by decide
example : joinColon ["1".toList, "2".toList, "3".toList] = "1:2:3".toList := by decide
example : wordsVal [1, 2, 3] = 0x000100020003 := by decide

example : IsQuad "192.0.2.1".toList 0xC0000201 :=
  ⟨"192".toList, "0".toList, "2".toList, "1".toList, by decide, by decide, by decide, by decide, by decide, by decide⟩

/-- `2001:db8:0:0:8:800:200C:417A` (RFC 4291's own example), all eight groups -/
example : Rfc4291 "2001:db8:0:0:8:800:200C:417A".toList 0x20010db80000000000080800200C417A :=
  Or.inl ⟨["2001".toList, "db8".toList, "0".toList, "0".toList, "8".toList, "800".toList, "200C".toList,
    "417A".toList], [], [], by decide, Or.inl ⟨rfl, rfl⟩, by decide, by decide, by decide⟩

/-- the same address compressed: `2001:db8::8:800:200C:417A` -/
example : Rfc4291 "2001:db8::8:800:200C:417A".toList 0x20010db80000000000080800200C417A :=
  Or.inr ⟨["2001".toList, "db8".toList], ["8".toList, "800".toList, "200C".toList, "417A".toList], [], [],
    by decide, by decide, Or.inl ⟨rfl, rfl⟩, by decide, by decide, by decide⟩

/-- `::` the unspecified address, `::1` loopback, `1::` trailing compression -/
example : Rfc4291 "::".toList 0 :=
  Or.inr ⟨[], [], [], [], by decide, by decide, Or.inl ⟨rfl, rfl⟩, by decide, by decide, by decide⟩
example : Rfc4291 "::1".toList 1 :=
  Or.inr ⟨[], ["1".toList], [], [], by decide, by decide, Or.inl ⟨rfl, rfl⟩, by decide, by decide, by decide⟩
example : Rfc4291 "1::".toList (2 ^ 112) :=
  Or.inr ⟨["1".toList], [], [], [], by decide, by decide, Or.inl ⟨rfl, rfl⟩, by decide, by decide, by decide⟩

/-- `::` standing for exactly one group -/
example : Rfc4291 "1:2:3:4::6:7:8".toList 0x00010002000300040000000600070008 :=
  Or.inr ⟨["1".toList, "2".toList, "3".toList, "4".toList], ["6".toList, "7".toList, "8".toList], [], [],
    by decide, by decide, Or.inl ⟨rfl, rfl⟩, by decide, by decide, by decide⟩

/-- `::FFFF:129.144.52.38` (RFC 4291's IPv4-mapped example) -/
example : Rfc4291 "::FFFF:129.144.52.38".toList 0xFFFF81903426 :=
  Or.inr ⟨[], ["FFFF".toList], ["129.144.52.38".toList], [0x8190, 0x3426], by decide, by decide,
    Or.inr ⟨_, 0x81903426, ⟨"129".toList, "144".toList, "52".toList, "38".toList, by decide, by decide, by decide,
      by decide, by decide, by decide⟩, rfl, by decide⟩, by decide, by decide, by decide⟩

/-- `0:0:0:0:0:0:13.1.68.3` (RFC 4291's IPv4-compatible example), no `::` -/
example : Rfc4291 "0:0:0:0:0:0:13.1.68.3".toList 0x0D014403 :=
  Or.inl ⟨["0".toList, "0".toList, "0".toList, "0".toList, "0".toList, "0".toList], ["13.1.68.3".toList],
    [0x0D01, 0x4403],
    by decide, Or.inr ⟨_, 0x0D014403, ⟨"13".toList, "1".toList, "68".toList, "3".toList, by decide, by decide,
      by decide, by decide, by decide, by decide⟩, rfl, by decide⟩, by decide, by decide, by decide⟩

/-! ## Bridges: the grammar's notions against the model's token readers -/
open NV.Text4 NV.Text6

theorem isHexC_iff (c : Char) : isHexC c = true ↔ IsHexDigit c := by
  simp only [isHexC, IsHexDigit, Bool.or_eq_true, Bool.and_eq_true, decide_eq_true_eq, or_assoc]

theorem isDec_iff (c : Char) : isDec c = true ↔ IsDecDigit c := by
  simp only [isDec, IsDecDigit, Bool.and_eq_true, decide_eq_true_eq]

theorem hexVal_eq (c : Char) (h : IsHexDigit c) : hexVal c = digitVal c := by
  unfold hexVal digitVal
  have e0 : '0'.toNat = 48 := rfl
  have ea : 'a'.toNat = 97 := rfl
  have eA : 'A'.toNat = 65 := rfl
  by_cases h1 : '0' ≤ c ∧ c ≤ '9'
  · simp only [h1, and_self, if_true, e0]
  · simp only [h1, if_false]
    by_cases h2 : 'a' ≤ c ∧ c ≤ 'f'
    · simp only [h2, and_self, if_true, ea]
      have : 97 ≤ c.toNat := Char.le_def.mp h2.1
      omega
    · simp only [h2, if_false, eA]
      rcases h with h | h | h
      · exact absurd h h1
      · exact absurd h h2
      · have : 65 ≤ c.toNat := Char.le_def.mp h.1
        omega

theorem isHex_of_isDec (c : Char) (h : IsDecDigit c) : IsHexDigit c := Or.inl h

theorem foldl_numVal (b : Nat) (t : List Char) (h : ∀ c ∈ t, IsHexDigit c) (acc : Nat) :
    t.foldl (fun a c => a * b + hexVal c) acc = acc * b ^ t.length + numVal b t := by
  induction t generalizing acc with
  | nil => simp [numVal]
  | cons c r ih =>
    rw [List.foldl_cons, ih (fun x hx => h x (by simp [hx])), hexVal_eq c (h c (by simp))]
    simp only [numVal, List.length_cons, Nat.pow_succ]
    rw [Nat.add_mul, Nat.mul_assoc, Nat.mul_comm b, Nat.add_assoc]

theorem ofBase_eq_numVal (b : Nat) (t : List Char) (h : ∀ c ∈ t, IsHexDigit c) : ofBase b t = numVal b t := by
  unfold ofBase
  rw [foldl_numVal b t h 0]; simp

/-- the model's group reader accepts exactly the grammar's groups, with the positional value -/
theorem hextet_iff (t : List Char) (n : Nat) : hextet t = some n ↔ IsGroup t ∧ n = numVal 16 t := by
  unfold hextet IsGroup
  constructor
  · intro h
    split at h
    · rename_i hc
      have hall : ∀ c ∈ t, IsHexDigit c := fun c hc' => (isHexC_iff c).mp (List.all_eq_true.mp hc.2.2 c hc')
      cases h
      exact ⟨⟨hc.1, hc.2.1, hall⟩, ofBase_eq_numVal 16 t hall⟩
    · cases h
  · rintro ⟨⟨h1, h2, h3⟩, rfl⟩
    have hall : t.all isHexC = true := List.all_eq_true.mpr (fun c hc => (isHexC_iff c).mpr (h3 c hc))
    rw [if_pos ⟨h1, h2, hall⟩, ofBase_eq_numVal 16 t h3]

/-- the model's strict octet reader accepts exactly the grammar's octets -/
theorem octet_iff (t : List Char) (n : Nat) : Text4.octet t = some n ↔ IsOctet t ∧ n = numVal 10 t := by
  unfold Text4.octet IsOctet
  constructor
  · intro h
    split at h
    · rename_i hc
      obtain ⟨h1, h2, h3, h4⟩ := hc
      have hall : ∀ c ∈ t, IsDecDigit c := fun c hc' => (isDec_iff c).mp (List.all_eq_true.mp h3 c hc')
      have hv := ofBase_eq_numVal 10 t (fun c hc' => isHex_of_isDec c (hall c hc'))
      simp only at h
      split at h
      · rename_i hle
        cases h
        refine ⟨⟨h1, h2, hall, ?_, by rw [← hv]; exact hle⟩, hv⟩
        intro h2'
        rcases h4 with h4 | h4
        · omega
        · exact h4
      · cases h
    · cases h
  · rintro ⟨⟨h1, h2, h3, h4, h5⟩, rfl⟩
    have hall : t.all isDec = true := List.all_eq_true.mpr (fun c hc => (isDec_iff c).mpr (h3 c hc))
    have hv := ofBase_eq_numVal 10 t (fun c hc' => isHex_of_isDec c (h3 c hc'))
    have h4' : t.length = 1 ∨ t.head? ≠ some '0' := by
      by_cases hl : t.length = 1
      · exact Or.inl hl
      · exact Or.inr (h4 (by omega))
    rw [if_pos ⟨h1, h2, hall, h4'⟩]
    simp only [hv, h5, if_true]

theorem dot_not_dec (t : List Char) (h : ∀ c ∈ t, IsDecDigit c) : '.' ∉ t := by
  intro hm
  have := h _ hm
  revert this; decide

theorem colon_not_dec (t : List Char) (h : ∀ c ∈ t, IsDecDigit c) : ':' ∉ t := by
  intro hm
  have := h _ hm
  revert this; decide

/-- the model's strict dotted-quad reader accepts exactly the grammar's quads -/
theorem pton4_iff_quad (t : List Char) (x : Nat) : Text4.pton4 t = some x ↔ IsQuad t x := by
  constructor
  · intro h
    have hjoin := List.intercalate_splitOn (xs := t) '.'
    unfold Text4.pton4 at h
    generalize t.splitOn '.' = toks at h hjoin
    match toks, h with
    | [a, b, c, d], h =>
      cases ha : Text4.octet a with
      | none => simp [ha] at h
      | some na =>
        cases hb : Text4.octet b with
        | none => simp [ha, hb] at h
        | some nb =>
          cases hc : Text4.octet c with
          | none => simp [ha, hb, hc] at h
          | some nc =>
            cases hd : Text4.octet d with
            | none => simp [ha, hb, hc, hd] at h
            | some nd =>
              simp only [ha, hb, hc, hd, Option.some.injEq] at h
              obtain ⟨oa, ea⟩ := (octet_iff a na).mp ha
              obtain ⟨ob, eb⟩ := (octet_iff b nb).mp hb
              obtain ⟨oc, ec⟩ := (octet_iff c nc).mp hc
              obtain ⟨od, ed⟩ := (octet_iff d nd).mp hd
              refine ⟨a, b, c, d, oa, ob, oc, od, ?_, ?_⟩
              · rw [← hjoin]; simp [List.intercalate]
              · rw [← ea, ← eb, ← ec, ← ed, ← h]; omega
    | [], h => simp at h
    | [_], h => simp at h
    | [_, _], h => simp at h
    | [_, _, _], h => simp at h
    | _ :: _ :: _ :: _ :: _ :: _, h => simp at h
  · rintro ⟨a, b, c, d, oa, ob, oc, od, rfl, rfl⟩
    have hjoin : a ++ '.' :: (b ++ '.' :: (c ++ '.' :: d)) = ['.'].intercalate [a, b, c, d] := by
      simp [List.intercalate]
    have hsplit : (a ++ '.' :: (b ++ '.' :: (c ++ '.' :: d))).splitOn '.' = [a, b, c, d] := by
      rw [hjoin]
      apply List.splitOn_intercalate
      · intro l hl
        simp only [List.mem_cons, List.not_mem_nil, or_false] at hl
        rcases hl with e | e | e | e <;> subst e
        · exact dot_not_dec _ oa.2.2.1
        · exact dot_not_dec _ ob.2.2.1
        · exact dot_not_dec _ oc.2.2.1
        · exact dot_not_dec _ od.2.2.1
      · simp
    unfold Text4.pton4
    rw [hsplit]
    simp only [(octet_iff a _).mpr ⟨oa, rfl⟩, (octet_iff b _).mpr ⟨ob, rfl⟩, (octet_iff c _).mpr ⟨oc, rfl⟩,
      (octet_iff d _).mpr ⟨od, rfl⟩]
    generalize numVal 10 a = na
    generalize numVal 10 b = nb
    generalize numVal 10 c = nc
    generalize numVal 10 d = nd
    refine congrArg some ?_
    omega

theorem joinColon_eq (ts : List (List Char)) : joinColon ts = [':'].intercalate ts := by
  induction ts with
  | nil => simp [joinColon, List.intercalate]
  | cons a r ih =>
    cases r with
    | nil => simp [joinColon, List.intercalate]
    | cons b r' =>
      rw [C01L.intercalate_cons_cons, ← ih]
      simp [joinColon]

theorem foldl_wordsVal (ws : List Nat) (acc : Nat) :
    ws.foldl (fun a w => a * 65536 + w) acc = acc * 65536 ^ ws.length + wordsVal ws := by
  induction ws generalizing acc with
  | nil => simp [wordsVal]
  | cons w r ih =>
    rw [List.foldl_cons, ih]
    simp only [wordsVal, List.length_cons, Nat.pow_succ]
    rw [Nat.add_mul, Nat.mul_assoc, Nat.mul_comm 65536, Nat.add_assoc]

theorem ofWords_eq (ws : List Nat) : ofWords ws = wordsVal ws := by
  unfold ofWords
  rw [foldl_wordsVal]; simp

/-! ### what a group / a quad looks like as a token -/

theorem group_ne_nil (t : List Char) (h : IsGroup t) : t ≠ [] := by
  intro e; subst e; exact absurd h.1 (by simp)

theorem group_no_dot (t : List Char) (h : IsGroup t) : '.' ∉ t := by
  intro hm
  have := h.2.2 _ hm
  revert this; decide

theorem group_no_colon (t : List Char) (h : IsGroup t) : ':' ∉ t := by
  intro hm
  have := h.2.2 _ hm
  revert this; decide

theorem quad_ne_nil (t : List Char) (x : Nat) (h : IsQuad t x) : t ≠ [] := by
  obtain ⟨a, b, c, d, _, _, _, _, rfl, _⟩ := h
  intro e
  have := congrArg List.length e
  simp at this

theorem quad_has_dot (t : List Char) (x : Nat) (h : IsQuad t x) : '.' ∈ t := by
  obtain ⟨a, b, c, d, _, _, _, _, rfl, _⟩ := h
  simp

theorem quad_no_colon (t : List Char) (x : Nat) (h : IsQuad t x) : ':' ∉ t := by
  obtain ⟨a, b, c, d, oa, ob, oc, od, rfl, _⟩ := h
  simp only [List.mem_append, List.mem_cons, not_or]
  exact ⟨colon_not_dec _ oa.2.2.1, by decide, colon_not_dec _ ob.2.2.1, by decide, colon_not_dec _ oc.2.2.1,
    by decide, colon_not_dec _ od.2.2.1⟩

theorem quad_lt (t : List Char) (x : Nat) (h : IsQuad t x) : x < 2 ^ 32 := by
  obtain ⟨a, b, c, d, oa, ob, oc, od, _, rfl⟩ := h
  have := oa.2.2.2.2; have := ob.2.2.2.2; have := oc.2.2.2.2; have := od.2.2.2.2
  omega

end NV.C01G
