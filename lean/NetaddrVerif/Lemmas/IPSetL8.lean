/-
Lemmas/IPSetL8.lean — reading the sweeps' Boolean tests on the common number line;
converse of canonset_lin (C07).
-/
import NetaddrVerif.Lemmas.IPSetL7
import NetaddrVerif.Lemmas.InterL
namespace NV.IPSet
open NV NV.Blk

theorem lin_disj_iff (a b : Net) (ha : a.WF) (hb : b.WF) (hv : a.ver = b.ver) :
    (lin a).disj (lin b) ↔ (blk a).disj (blk b) := by
  constructor
  · intro h x ⟨h1, h2⟩
    apply h (off a.ver + x)
    rw [lin_mem a ha, lin_mem b hb, ← hv]
    rw [blk_mem a ha] at h1; rw [blk_mem b hb] at h2
    omega
  · intro h x ⟨h1, h2⟩
    rw [lin_mem a ha] at h1; rw [lin_mem b hb, ← hv] at h2
    apply h (x - off a.ver)
    rw [blk_mem a ha, blk_mem b hb]
    omega

theorem lin_sib_iff (a b : Net) (ha : a.WF) (hv : a.ver = b.ver) :
    (lin a).sib (lin b) ↔ (blk a).sib (blk b) := by
  unfold Blk.sib lin blk
  simp only
  have h1 := off_mod a.ver (width a.ver - a.plen + 1) (by have := width_le a ha; omega)
  rw [← hv]
  constructor
  · rintro ⟨e1, e2, e3⟩
    refine ⟨e1, ?_, by omega⟩
    rw [Nat.add_mod, h1] at e2; simpa using e2
  · rintro ⟨e1, e2, e3⟩
    refine ⟨e1, ?_, by omega⟩
    rw [Nat.add_mod, h1, e2]; simp

/-- converse of `canonset_lin`: a duplicate-free list of good keys whose line blocks are
    canonical satisfies the state invariant -/
theorem inv_of_lin (s : St) (hg : ∀ n ∈ s, Good n) (hn : s.Nodup) (hc : CanonSet (s.map lin)) : Inv s := by
  refine ⟨hg, hn, fun ver => ⟨?_, ?_, ?_⟩⟩
  · intro b hb
    obtain ⟨n, h1, _, rfl⟩ := mem_fam.1 hb
    exact blk_aligned n (hg n h1).1
  · intro b hb c hc' hne
    obtain ⟨n, h1, hv1, rfl⟩ := mem_fam.1 hb
    obtain ⟨m, h2, hv2, rfl⟩ := mem_fam.1 hc'
    have hv : n.ver = m.ver := hv1.trans hv2.symm
    rw [← lin_disj_iff n m (hg n h1).1 (hg m h2).1 hv]
    apply hc.dj _ (List.mem_map.2 ⟨n, h1, rfl⟩) _ (List.mem_map.2 ⟨m, h2, rfl⟩)
    intro e
    exact hne ((lin_eq_iff n m (hg n h1).1 (hg m h2).1).1 e).2
  · intro b hb c hc'
    obtain ⟨n, h1, hv1, rfl⟩ := mem_fam.1 hb
    obtain ⟨m, h2, hv2, rfl⟩ := mem_fam.1 hc'
    have hv : n.ver = m.ver := hv1.trans hv2.symm
    rw [← lin_sib_iff n m (hg n h1).1 hv]
    exact hc.ns _ (List.mem_map.2 ⟨n, h1, rfl⟩) _ (List.mem_map.2 ⟨m, h2, rfl⟩)

/-- the sweep's Boolean tests, read on the line -/
theorem keyEq_lin (a b : Net) (ha : a.WF) (hb : b.WF) : keyEq a b = true ↔ lin a = lin b := by
  rw [keyEq_iff a b ha hb, lin_eq_iff a b ha hb]

theorem netIn_lin (a b : Net) (ha : a.WF) (hb : b.WF) : netIn a b = true ↔ NV.subB (lin a) (lin b) = true := by
  unfold netIn NV.subB lin
  simp only [Bool.and_eq_true, beq_iff_eq, decide_eq_true_eq]
  have h1 := first_lt_128 a ha; have h2 := first_lt_128 b hb
  have h3 := first_le_last a ha; have h4 := first_le_last b hb
  have ea : a.first + 2 ^ (width a.ver - a.plen) = a.last + 1 := by
    have := last_eq a ha; have := pw (width a.ver - a.plen); omega
  have eb : b.first + 2 ^ (width b.ver - b.plen) = b.last + 1 := by
    have := last_eq b hb; have := pw (width b.ver - b.plen); omega
  generalize 2 ^ (width a.ver - a.plen) = Pa at *
  generalize 2 ^ (width b.ver - b.plen) = Pb at *
  have hp := p129
  unfold off
  rcases ha.1 with x | x <;> rcases hb.1 with y | y <;> simp [x, y] <;> omega

/-- for two blocks that are neither equal nor nested, sort-key order is line order -/
theorem netLt_lin (a b : Net) (ha : a.WF) (hb : b.WF)
    (h1 : NV.subB (lin a) (lin b) = false) (h2 : NV.subB (lin b) (lin a) = false) :
    netLt a b = true ↔ (lin a).base < (lin b).base := by
  have hdisj : ∀ y, ¬ ((lin a).mem y ∧ (lin b).mem y) := by
    intro y ⟨m1, m2⟩
    rcases Nat.le_total (lin a).k (lin b).k with hk | hk
    · have := (NV.subB_iff _ _).2 (sub_of_share _ _ (lin_aligned a ha) (lin_aligned b hb) hk y m1 m2)
      rw [h1] at this; exact absurd this (by simp)
    · have := (NV.subB_iff _ _).2 (sub_of_share _ _ (lin_aligned b hb) (lin_aligned a ha) hk y m2 m1)
      rw [h2] at this; exact absurd this (by simp)
  have k1 := first_lt_128 a ha; have k2 := first_lt_128 b hb
  have k3 := first_le_last a ha; have k4 := first_le_last b hb
  have hp := p129
  show tupleLt a.sortKey b.sortKey = true ↔ off a.ver + a.first < off b.ver + b.first
  unfold tupleLt Net.sortKey
  simp only [tupleCmp]
  by_cases hv : a.ver = b.ver
  · have hfne : a.first ≠ b.first := by
      intro e
      apply hdisj (off a.ver + a.first)
      rw [lin_mem a ha, lin_mem b hb, ← hv, ← e]; omega
    rw [hv]
    have e1 : ¬ ((b.ver : Int) < b.ver) := by omega
    simp only [e1, if_false, gt_iff_lt]
    by_cases hf : (a.first : Int) < b.first
    · simp [hf]; omega
    · have hf2 : (b.first : Int) < a.first := by omega
      simp [hf, hf2]; omega
  · rcases ha.1 with x | x <;> rcases hb.1 with y | y
    · exact absurd (x.trans y.symm) hv
    · unfold off; simp [x, y]; omega
    · unfold off; simp [x, y]; omega
    · exact absurd (x.trans y.symm) hv

end NV.IPSet
