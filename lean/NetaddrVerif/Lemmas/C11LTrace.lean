/-
Lemmas/C11LTrace.lean — the statement-level runs of Model/SubnetTrace.lean in closed form:
`runStmts (body o minus k) st = specBody o minus k st m` for every start state in which the
body's `self` is bound.  Helper lemmas only; the property theorems are in Props/C11Audit2.lean.
-/
import NetaddrVerif.Model.SubnetTrace
import NetaddrVerif.Lemmas.C11L
namespace NV.C11LT
open NV NV.Subnet NV.Subnet.Trace

/-- `new_value` of the in-place bodies: `int(self.network) ± self.size * k` on the object `n` -/
def newValue (minus : Bool) (n : Net) (k : Int) : Int :=
  if minus then ((netNetwork (width n.ver) n.val n.plen : Nat) : Int) - ((netSize (width n.ver) n.val n.plen : Nat) : Int) * k
  else ((netNetwork (width n.ver) n.val n.plen : Nat) : Int) + ((netSize (width n.ver) n.val n.plen : Nat) : Int) * k

/-- the first test of `__iadd__` (second of `__isub__`): `(new_value + (self.size - 1)) > max_int` -/
def Above (n : Net) (nv : Int) : Prop :=
  nv + (((netSize (width n.ver) n.val n.plen : Nat) : Int) - 1) > ((maxInt n.ver : Nat) : Int)

instance (n : Net) (nv : Int) : Decidable (Above n nv) := by unfold Above; infer_instance

theorem runStmts_cons (s : Stmt) (ss : List Stmt) (st : St) (h : st.out = none) :
    runStmts (s :: ss) st = runStmts ss (step st s) := by
  simp [runStmts, h]

theorem runStmts_done (l : List Stmt) (st : St) (x : Except Err Obj) (h : st.out = some x) :
    runStmts l st = st := by
  cases l with
  | nil => rfl
  | cons s ss => simp [runStmts, h]

theorem step_compute (st : St) (o : Obj) (minus : Bool) (k : Int) (m : Net) (h : st.obj o = some m) :
    step st (.compute o minus k) =
      { st with nv := newValue minus m k, log := st.log ++ [.computed o (newValue minus m k)] } := by
  simp only [step, h, newValue]

theorem step_above_t (st : St) (o : Obj) (m : Net) (h : st.obj o = some m) (hA : Above m st.nv) :
    step st (.ifAboveRaise o) =
      { st with out := some (.error .index), log := st.log ++ [.testAbove o true, .raise .index] } := by
  simp only [step, h]; exact if_pos hA

theorem step_above_f (st : St) (o : Obj) (m : Net) (h : st.obj o = some m) (hA : ¬ Above m st.nv) :
    step st (.ifAboveRaise o) = { st with log := st.log ++ [.testAbove o false] } := by
  simp only [step, h]; exact if_neg hA

theorem step_below_t (st : St) (o : Obj) (m : Net) (h : st.obj o = some m) (hB : st.nv < 0) :
    step st (.ifBelowRaise o) =
      { st with out := some (.error .index), log := st.log ++ [.testBelow o true, .raise .index] } := by
  simp only [step, h]; exact if_pos hB

theorem step_below_f (st : St) (o : Obj) (m : Net) (h : st.obj o = some m) (hB : ¬ st.nv < 0) :
    step st (.ifBelowRaise o) = { st with log := st.log ++ [.testBelow o false] } := by
  simp only [step, h]; exact if_neg hB

theorem step_store (st : St) (o : Obj) (m : Net) (h : st.obj o = some m) :
    step st (.store o) =
      { (st.setObj o { m with val := st.nv.toNat }) with
        log := (st.setObj o { m with val := st.nv.toNat }).log ++ [.store o st.nv] } := by
  simp only [step, h]

/-- the state a body run ends in, in closed form -/
def specBody (o : Obj) (minus : Bool) (k : Int) (st : St) (m : Net) : St :=
  let nv := newValue minus m k
  if minus then
    if nv < 0 then
      { st with nv := nv, out := some (.error .index),
                log := st.log ++ [.computed o nv, .testBelow o true, .raise .index] }
    else if Above m nv then
      { st with nv := nv, out := some (.error .index),
                log := st.log ++ [.computed o nv, .testBelow o false, .testAbove o true, .raise .index] }
    else
      { (st.setObj o { m with val := nv.toNat }) with
        nv := nv, out := some (.ok o),
        log := st.log ++ [.computed o nv, .testBelow o false, .testAbove o false, .store o nv, .ret o] }
  else
    if Above m nv then
      { st with nv := nv, out := some (.error .index),
                log := st.log ++ [.computed o nv, .testAbove o true, .raise .index] }
    else if nv < 0 then
      { st with nv := nv, out := some (.error .index),
                log := st.log ++ [.computed o nv, .testAbove o false, .testBelow o true, .raise .index] }
    else
      { (st.setObj o { m with val := nv.toNat }) with
        nv := nv, out := some (.ok o),
        log := st.log ++ [.computed o nv, .testAbove o false, .testBelow o false, .store o nv, .ret o] }

theorem runStmts_body (o : Obj) (minus : Bool) (k : Int) (st : St) (m : Net)
    (hout : st.out = none) (hobj : st.obj o = some m) :
    runStmts (body o minus k) st = specBody o minus k st m := by
  have hobj' : ∀ (a : Int) (l : List Ev), ({ st with nv := a, log := l } : St).obj o = some m := by
    intro a l; cases o <;> exact hobj
  have next : ∀ (s : Stmt) (ss : List Stmt) (r c : _) (a : Int) (l : List Ev),
      runStmts (s :: ss) { recv := r, copy := c, nv := a, log := l, out := st.out } =
        runStmts ss (step { recv := r, copy := c, nv := a, log := l, out := st.out } s) := by
    intro s ss r c a l; exact runStmts_cons _ _ _ hout
  cases minus
  · simp only [body, specBody, Bool.false_eq_true, if_false]
    rw [runStmts_cons _ _ _ hout, step_compute st o false k m hobj]
    by_cases hA : Above m (newValue false m k)
    · rw [if_pos hA, next, step_above_t _ o m (hobj' (newValue false m k) _) hA]
      rw [runStmts_done _ _ _ rfl]
      simp
    · rw [if_neg hA, next, step_above_f _ o m (hobj' (newValue false m k) _) hA]
      by_cases hB : newValue false m k < 0
      · rw [if_pos hB, next, step_below_t _ o m (hobj' (newValue false m k) _) hB]
        rw [runStmts_done _ _ _ rfl]
        simp
      · rw [if_neg hB, next, step_below_f _ o m (hobj' (newValue false m k) _) hB]
        rw [next, step_store _ o m (hobj' (newValue false m k) _)]
        cases o <;> simp [runStmts, step, St.setObj, hout]
  · simp only [body, specBody, if_true]
    rw [runStmts_cons _ _ _ hout, step_compute st o true k m hobj]
    by_cases hB : newValue true m k < 0
    · rw [if_pos hB, next, step_below_t _ o m (hobj' (newValue true m k) _) hB]
      rw [runStmts_done _ _ _ rfl]
      simp
    · rw [if_neg hB, next, step_below_f _ o m (hobj' (newValue true m k) _) hB]
      by_cases hA : Above m (newValue true m k)
      · rw [if_pos hA, next, step_above_t _ o m (hobj' (newValue true m k) _) hA]
        rw [runStmts_done _ _ _ rfl]
        simp
      · rw [if_neg hA, next, step_above_f _ o m (hobj' (newValue true m k) _) hA]
        rw [next, step_store _ o m (hobj' (newValue true m k) _)]
        cases o <;> simp [runStmts, step, St.setObj, hout]
end NV.C11LT
