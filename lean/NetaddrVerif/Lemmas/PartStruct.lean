import NetaddrVerif.Lemmas.Partition

namespace NV

-- Prototype: structural invariants of the cidr_partition loop output (aligned, ordered, distinct sizes)

def alignedN (w : Nat) (b : Pfx) : Prop := b.val % 2 ^ (w - b.plen) = 0

/-- left blocks ascend and shrink; right blocks (in append order) descend and shrink -/
def LeftOK (w : Nat) (l : List Pfx) : Prop :=
  (∀ b ∈ l, alignedN w b) ∧ l.Pairwise (fun b c => b.val + 2 ^ (w - b.plen) ≤ c.val ∧ b.plen < c.plen)
def RightOK (w : Nat) (l : List Pfx) : Prop :=
  (∀ b ∈ l, alignedN w b) ∧ l.Pairwise (fun b c => c.val + 2 ^ (w - c.plen) ≤ b.val ∧ b.plen < c.plen)

theorem partLoop_struct (w ef ep : Nat) (_hep : ep ≤ w) :
    ∀ (fuel np iLower : Nat) (left right : List Pfx),
      fuel = ep + 1 - np → 1 ≤ np → np ≤ ep + 1 → np ≤ w →
      iLower % (2 * 2 ^ (w - np)) = 0 →
      LeftOK w left → RightOK w right →
      (∀ b ∈ left, b.val + 2 ^ (w - b.plen) ≤ iLower ∧ b.plen < np) →
      (∀ b ∈ right, iLower + 2 * 2 ^ (w - np) ≤ b.val ∧ b.plen < np) →
      LeftOK w (partLoop w ef ep np iLower (iLower + 2 ^ (w - np)) left right).1 ∧
      RightOK w (partLoop w ef ep np iLower (iLower + 2 ^ (w - np)) left right).2 := by
  intro fuel
  induction fuel with
  | zero =>
    intro np iLower left right hf h1 h2 h3 _ hL hR _ _
    unfold partLoop
    have hng : ¬ ep ≥ np := by omega
    simp only [hng, dite_false]
    exact ⟨hL, hR⟩
  | succ fuel ih =>
    intro np iLower left right hf h1 h2 h3 hal2 hL hR hbl hbr
    have hge : ep ≥ np := by omega
    have hH := pp (w - np)
    have hILmodH : iLower % 2 ^ (w - np) = 0 := by
      have := Nat.mod_mul_right_mod iLower (2 ^ (w - np)) 2
      rw [Nat.mul_comm] at hal2
      rw [hal2] at this; simpa using this.symm
    unfold partLoop
    simp only [hge, dite_true]
    by_cases hcase : ef ≥ iLower + 2 ^ (w - np)
    · simp only [hcase, ite_true]
      have hL' : LeftOK w (left ++ [⟨iLower, np⟩]) := by
        refine ⟨?_, ?_⟩
        · intro b hb
          rcases List.mem_append.1 hb with h | h
          · exact hL.1 b h
          · simp at h; subst h; exact hILmodH
        · rw [List.pairwise_append]
          refine ⟨hL.2, by simp, ?_⟩
          intro b hb c hc
          simp at hc; subst hc
          exact hbl b hb
      by_cases hbrk : np + 1 > w
      · simp only [hbrk, ite_true]; exact ⟨hL', hR⟩
      · simp only [hbrk, ite_false]
        have hhalf := pow_half w np (by omega)
        apply ih (np + 1) (iLower + 2 ^ (w - np)) _ right (by omega) (by omega) (by omega) (by omega)
          (by rw [← hhalf, Nat.add_mod, hILmodH]; simp) hL' hR
        · intro b hb
          rcases List.mem_append.1 hb with h | h
          · have := hbl b h; omega
          · simp at h; subst h; simp
        · intro b hb
          have := hbr b hb
          rw [← hhalf]; omega
    · simp only [hcase, ite_false]
      have hR' : RightOK w (right ++ [⟨iLower + 2 ^ (w - np), np⟩]) := by
        refine ⟨?_, ?_⟩
        · intro b hb
          rcases List.mem_append.1 hb with h | h
          · exact hR.1 b h
          · simp at h; subst h
            show (iLower + 2 ^ (w - np)) % 2 ^ (w - np) = 0
            rw [Nat.add_mod, hILmodH]; simp
        · rw [List.pairwise_append]
          refine ⟨hR.2, by simp, ?_⟩
          intro b hb c hc
          simp at hc; subst hc
          have := hbr b hb
          simp; omega
      by_cases hbrk : np + 1 > w
      · simp only [hbrk, ite_true]; exact ⟨hL, hR'⟩
      · simp only [hbrk, ite_false]
        have hhalf := pow_half w np (by omega)
        apply ih (np + 1) iLower left _ (by omega) (by omega) (by omega) (by omega)
          (by rw [← hhalf]; exact hILmodH) hL hR'
        · intro b hb
          have := hbl b hb; omega
        · intro b hb
          rcases List.mem_append.1 hb with h | h
          · have := hbr b h; rw [← hhalf]; omega
          · simp at h; subst h; simp; rw [← hhalf]; omega

end NV
