/-
Lemmas/C15LWords.lean — word codecs: `wordsLoop` yields the base-2^ws digits of v, `orShift`
recombines them; little-endian value `leValue` as the common denotation.  Core only.
-/
import NetaddrVerif.Model.Codec
namespace NV.Codec

/-- little-endian value of a word list in base 2^k -/
def leValue (k : Nat) : List Nat → Nat
  | [] => 0
  | x :: t => x + 2 ^ k * leValue k t

theorem pow_pos2 (k : Nat) : 0 < 2 ^ k := Nat.pos_of_ne_zero (by simp)

theorem wordsLoop_length (ws n v : Nat) : (wordsLoop ws n v).length = n := by
  induction n generalizing v with
  | zero => rfl
  | succ n ih => simp [wordsLoop, ih]

theorem wordsLoop_lt (ws n v : Nat) : ∀ x ∈ wordsLoop ws n v, x < 2 ^ ws := by
  induction n generalizing v with
  | zero => simp [wordsLoop]
  | succ n ih =>
    intro x hx
    simp only [wordsLoop, List.mem_cons] at hx
    rcases hx with h | h
    · subst h; rw [Nat.and_two_pow_sub_one_eq_mod]; exact Nat.mod_lt _ (pow_pos2 ws)
    · exact ih _ x h

theorem leValue_wordsLoop (ws n v : Nat) : leValue ws (wordsLoop ws n v) = v % 2 ^ (ws * n) := by
  induction n generalizing v with
  | zero => simp [wordsLoop, leValue, Nat.mod_one]
  | succ n ih =>
    simp only [wordsLoop, leValue, ih, Nat.and_two_pow_sub_one_eq_mod, Nat.shiftRight_eq_div_pow]
    rw [Nat.mul_succ, Nat.add_comm (ws * n) ws, Nat.pow_add, Nat.mod_mul]

theorem leValue_lt (k : Nat) (xs : List Nat) (h : ∀ x ∈ xs, x < 2 ^ k) :
    leValue k xs < 2 ^ (k * xs.length) := by
  induction xs with
  | nil => simp [leValue]
  | cons x t ih =>
    have hx := h x (by simp)
    have ht := ih (fun y hy => h y (by simp [hy]))
    simp only [leValue, List.length_cons, Nat.mul_succ]
    rw [Nat.add_comm (k * t.length) k, Nat.pow_add]
    have : 2 ^ k * (leValue k t + 1) ≤ 2 ^ k * 2 ^ (k * t.length) := Nat.mul_le_mul_left _ ht
    rw [Nat.mul_add] at this
    omega

/-- the or/shift fold adds each word at its position -/
theorem orShift_spec (k : Nat) (xs : List Nat) (h : ∀ x ∈ xs, x < 2 ^ k) :
    ∀ i acc, acc < 2 ^ (k * i) → orShift k xs i acc = acc + 2 ^ (k * i) * leValue k xs := by
  induction xs with
  | nil => intro i acc _; simp [orShift, leValue]
  | cons x t ih =>
    intro i acc hacc
    have hx := h x (by simp)
    simp only [orShift, leValue]
    have e : acc ||| x <<< (k * i) = x <<< (k * i) + acc := by
      rw [Nat.or_comm]; exact (Nat.shiftLeft_add_eq_or_of_lt hacc x).symm
    rw [e, Nat.shiftLeft_eq]
    have hlt : x * 2 ^ (k * i) + acc < 2 ^ (k * (i + 1)) := by
      rw [Nat.mul_succ, Nat.pow_add]
      have : (x + 1) * 2 ^ (k * i) ≤ 2 ^ k * 2 ^ (k * i) := Nat.mul_le_mul_right _ hx
      rw [Nat.add_mul] at this
      rw [Nat.mul_comm (2 ^ (k * i)) (2 ^ k)]
      omega
    rw [ih (fun y hy => h y (by simp [hy])) (i + 1) _ hlt]
    rw [Nat.mul_succ, Nat.pow_add, Nat.mul_add, Nat.mul_comm x, Nat.mul_assoc]
    omega

theorem orShift_zero (k : Nat) (xs : List Nat) (h : ∀ x ∈ xs, x < 2 ^ k) :
    orShift k xs 0 0 = leValue k xs := by
  rw [orShift_spec k xs h 0 0 (by simp)]; simp

theorem validWords_iff (words : List Nat) (ws nw : Nat) :
    validWords words ws nw = true ↔ words.length = nw ∧ ∀ x ∈ words, x < 2 ^ ws := by
  have := pow_pos2 ws
  simp only [validWords, Bool.and_eq_true, beq_iff_eq, List.all_eq_true, decide_eq_true_eq]
  constructor
  · rintro ⟨h1, h2⟩; exact ⟨h1, fun x hx => by have := h2 x hx; omega⟩
  · rintro ⟨h1, h2⟩; exact ⟨h1, fun x hx => by have := h2 x hx; omega⟩

/-- big-endian value of a word list in base 2^k (the denotation of a `words` tuple) -/
def beWordsValue (k : Nat) (xs : List Nat) : Nat := leValue k xs.reverse

end NV.Codec
