/-
Lemmas/C15LSep.lean — `str.replace(sep, '')` on `sep.join(words)` for an arbitrary separator:
whenever the separator contains at least one character that is not a binary digit, removing the
leftmost non-overlapping occurrences of it from the joined binary words gives back exactly the
concatenation of the words (no occurrence can start inside a word: the first non-binary
character of the separator would have to sit on a binary digit).
-/
import NetaddrVerif.Lemmas.C15LBits
namespace NV.C15L.Sep
open NV NV.Codec

/-- number of leading binary digits -/
def lead (s : List Char) : Nat := (s.takeWhile is01).length

theorem lead_bin_append (w r : List Char) (hw : ∀ c ∈ w, is01 c = true) : lead (w ++ r) = w.length + lead r := by
  unfold lead
  rw [List.takeWhile_append_of_pos hw, List.length_append]

theorem lead_bin (w : List Char) (hw : ∀ c ∈ w, is01 c = true) : lead w = w.length := by
  have := lead_bin_append w [] hw
  simpa [lead] using this

/-- the leading binary digits of `sep ++ t` are those of `sep` when `sep` has a non-binary character -/
theorem takeWhile_sep_append (sep t : List Char) (hx : ∃ c ∈ sep, is01 c = false) :
    (sep ++ t).takeWhile is01 = sep.takeWhile is01 := by
  induction sep with
  | nil => obtain ⟨c, hc, _⟩ := hx; simp at hc
  | cons a s ih =>
    cases ha : is01 a with
    | false => simp [List.takeWhile, ha]
    | true =>
      obtain ⟨c, hc, hcx⟩ := hx
      simp only [List.mem_cons] at hc
      rcases hc with rfl | hc
      · rw [ha] at hcx; cases hcx
      · simp only [List.cons_append, List.takeWhile_cons, ha, if_true]
        rw [ih ⟨c, hc, hcx⟩]

theorem lead_sep_append (sep t : List Char) (hx : ∃ c ∈ sep, is01 c = false) : lead (sep ++ t) = lead sep := by
  unfold lead; rw [takeWhile_sep_append sep t hx]

/-- the words each prefixed by the separator, concatenated: what follows the first word in
    `sep.join(words)` -/
def tail (sep : List Char) (ls : List (List Char)) : List Char := (ls.map (sep ++ ·)).flatten

theorem intercalate_eq (sep l : List Char) (ls : List (List Char)) :
    sep.intercalate (l :: ls) = l ++ tail sep ls := by
  induction ls generalizing l with
  | nil => simp [List.intercalate, List.intersperse, tail]
  | cons y t ih =>
    rw [List.intercalate_cons_cons, ih y]
    simp [tail]

/-- no occurrence of the separator starts on a binary digit of a word -/
theorem not_prefix (sep : List Char) (hx : ∃ c ∈ sep, is01 c = false) (c : Char) (w : List Char)
    (ls : List (List Char)) (hw : ∀ d ∈ c :: w, is01 d = true) :
    sep.isPrefixOf ((c :: w) ++ tail sep ls) = false := by
  cases hp : sep.isPrefixOf ((c :: w) ++ tail sep ls) with
  | false => rfl
  | true =>
    exfalso
    obtain ⟨t, ht⟩ := List.isPrefixOf_iff_prefix.mp hp
    have h1 : lead ((c :: w) ++ tail sep ls) = lead sep := by rw [← ht]; exact lead_sep_append sep t hx
    have h2 := lead_bin_append (c :: w) (tail sep ls) hw
    cases ls with
    | nil =>
      -- the whole string is binary, so the separator would be
      have hall : ∀ d ∈ (c :: w) ++ tail sep [], is01 d = true := by
        intro d hd; simp [tail] at hd; exact hw d (by simpa using hd)
      obtain ⟨x, hxs, hxb⟩ := hx
      have := hall x (by rw [← ht]; exact List.mem_append_left _ hxs)
      rw [hxb] at this; cases this
    | cons l ls' =>
      have h3 : lead (tail sep (l :: ls')) = lead sep := by
        have : tail sep (l :: ls') = sep ++ (l ++ tail sep ls') := by simp [tail]
        rw [this]; exact lead_sep_append sep _ hx
      rw [h1, h3] at h2
      simp at h2

/-- the scan of `str.replace`: from a point inside (or at the end of) a binary word, the rest
    of the joined string is reduced to the rest of the word followed by the remaining words -/
theorem replaceDelAux_join (sep : List Char) (hx : ∃ c ∈ sep, is01 c = false) :
    ∀ (fuel : Nat) (w : List Char) (ls : List (List Char)),
      (∀ c ∈ w, is01 c = true) → (∀ l ∈ ls, ∀ c ∈ l, is01 c = true) →
      (w ++ tail sep ls).length ≤ fuel →
      replaceDelAux sep fuel (w ++ tail sep ls) = w ++ ls.flatten := by
  have hne : sep ≠ [] := by rintro rfl; obtain ⟨c, hc, _⟩ := hx; simp at hc
  intro fuel
  induction fuel with
  | zero =>
    intro w ls _ _ hlen
    have h0 : w ++ tail sep ls = [] := List.eq_nil_of_length_eq_zero (by omega)
    have hw : w = [] := (List.append_eq_nil_iff.mp h0).1
    have ht : tail sep ls = [] := (List.append_eq_nil_iff.mp h0).2
    cases ls with
    | nil => simp [replaceDelAux, hw, tail]
    | cons l ls' =>
      exfalso
      have : tail sep (l :: ls') = sep ++ (l ++ tail sep ls') := by simp [tail]
      rw [this] at ht
      exact hne (List.append_eq_nil_iff.mp ht).1
  | succ f ih =>
    intro w ls hw hls hlen
    cases w with
    | nil =>
      cases ls with
      | nil => simp [tail, replaceDelAux]
      | cons l ls' =>
        have e : tail sep (l :: ls') = sep ++ (l ++ tail sep ls') := by simp [tail]
        have hlen' : (l ++ tail sep ls').length ≤ f := by
          have hpos : 0 < sep.length := List.length_pos_iff.mpr hne
          simp only [List.nil_append, e, List.length_append] at hlen
          simp only [List.length_append]
          omega
        have hrec := ih l ls' (fun c hc => hls l (by simp) c hc) (fun l' hl' => hls l' (by simp [hl'])) hlen'
        simp only [List.nil_append, e]
        obtain ⟨a, s, hs⟩ := List.exists_cons_of_ne_nil hne
        have hpre : sep.isPrefixOf (a :: (s ++ (l ++ tail sep ls'))) = true :=
          List.isPrefixOf_iff_prefix.mpr ⟨l ++ tail sep ls', by rw [hs]; simp⟩
        have hd : (a :: (s ++ (l ++ tail sep ls'))).drop sep.length = l ++ tail sep ls' := by
          have : a :: (s ++ (l ++ tail sep ls')) = sep ++ (l ++ tail sep ls') := by rw [hs]; simp
          rw [this, List.drop_left]
        have hform : sep ++ (l ++ tail sep ls') = a :: (s ++ (l ++ tail sep ls')) := by rw [hs]; simp
        rw [hform]
        simp only [replaceDelAux, hpre, if_true, hd, hrec]
        simp
    | cons c w' =>
      have hnp := not_prefix sep hx c w' ls hw
      have : (c :: w') ++ tail sep ls = c :: (w' ++ tail sep ls) := rfl
      rw [this] at hnp ⊢
      simp only [replaceDelAux, hnp, Bool.false_eq_true, if_false]
      rw [ih w' ls (fun d hd => hw d (by simp [hd])) hls (by simp at hlen ⊢; omega)]
      simp

/-- **strip the separator from the joined binary words**, for every separator that is empty or
    contains a character other than '0' / '1' -/
theorem replaceDel_intercalate_any (sep : List Char) (ls : List (List Char))
    (hls : ∀ l ∈ ls, ∀ c ∈ l, is01 c = true)
    (hsep : sep = [] ∨ ∃ c ∈ sep, is01 c = false) :
    (if sep ≠ [] then replaceDel sep (sep.intercalate ls) else sep.intercalate ls) = ls.flatten := by
  rcases hsep with rfl | hx
  · exact replaceDel_intercalate [] ls (Or.inl rfl)
  · have hne : sep ≠ [] := by rintro rfl; obtain ⟨c, hc, _⟩ := hx; simp at hc
    simp only [ne_eq, hne, not_false_eq_true, if_true, replaceDel, if_false]
    cases ls with
    | nil => simp [List.intercalate, List.intersperse, replaceDelAux]
    | cons l ls' =>
      rw [intercalate_eq]
      rw [replaceDelAux_join sep hx _ l ls' (fun c hc => hls l (by simp) c hc)
        (fun l' hl' => hls l' (by simp [hl'])) (Nat.le_refl _)]
      simp

end NV.C15L.Sep
