/-
Lemmas/C15LBytes.lean — big-endian byte strings: `beBytes`, `beValue`, chunking, and the
struct.pack / struct.unpack compositions of the four families.  Core only.
-/
import NetaddrVerif.Lemmas.C15LWords
namespace NV.Codec

theorem leValue_append (k : Nat) (xs ys : List Nat) :
    leValue k (xs ++ ys) = leValue k xs + 2 ^ (k * xs.length) * leValue k ys := by
  induction xs with
  | nil => simp [leValue]
  | cons x t ih =>
    simp only [List.cons_append, leValue, ih, List.length_cons, Nat.mul_succ]
    rw [Nat.add_comm (k * t.length) k, Nat.pow_add, Nat.mul_add, Nat.mul_assoc]
    omega

theorem leBytes_eq (n v : Nat) : leBytes n v = wordsLoop 8 n v := by
  induction n generalizing v with
  | zero => rfl
  | succ n ih =>
    simp only [leBytes, wordsLoop, ih, Nat.shiftRight_eq_div_pow]
    rw [Nat.and_two_pow_sub_one_eq_mod]

theorem beBytes_length (n v : Nat) : (beBytes n v).length = n := by
  simp [beBytes, leBytes_eq, wordsLoop_length]

theorem beBytes_lt (n v : Nat) : ∀ b ∈ beBytes n v, b < 256 := by
  intro b hb
  simp only [beBytes, leBytes_eq, List.mem_reverse] at hb
  exact wordsLoop_lt 8 n v b hb

theorem beValue_acc (bs : List Nat) : ∀ acc,
    bs.foldl (fun a b => a * 256 + b) acc = acc * 2 ^ (8 * bs.length) + leValue 8 bs.reverse := by
  induction bs with
  | nil => intro acc; simp [leValue]
  | cons b t ih =>
    intro acc
    rw [List.foldl_cons, ih, List.reverse_cons, leValue_append]
    simp only [List.length_reverse, leValue, List.length_cons]
    have e : (2 : Nat) ^ (8 * (t.length + 1)) = 256 * 2 ^ (8 * t.length) := by
      rw [Nat.mul_succ, Nat.pow_add, Nat.mul_comm]
    rw [e, Nat.add_mul, Nat.mul_assoc]
    simp only [Nat.mul_zero, Nat.add_zero]
    rw [Nat.mul_comm b]; omega

theorem beValue_eq (bs : List Nat) : beValue bs = leValue 8 bs.reverse := by
  simp [beValue, beValue_acc]

theorem beValue_beBytes (n v : Nat) : beValue (beBytes n v) = v % 2 ^ (8 * n) := by
  simp [beValue_eq, beBytes, leBytes_eq, leValue_wordsLoop]

theorem beValue_lt (bs : List Nat) (h : ∀ b ∈ bs, b < 256) : beValue bs < 2 ^ (8 * bs.length) := by
  rw [beValue_eq]
  have := leValue_lt 8 bs.reverse (fun x hx => by simpa using h x (by simpa using hx))
  simpa using this

theorem beValue_append (xs ys : List Nat) :
    beValue (xs ++ ys) = beValue xs * 2 ^ (8 * ys.length) + beValue ys := by
  simp only [beValue_eq, List.reverse_append, leValue_append, List.length_reverse]
  rw [Nat.mul_comm]; omega

/-- wordsLoop splits: the first `a` words, then the words of the shifted value -/
theorem wordsLoop_add (ws a b v : Nat) :
    wordsLoop ws (a + b) v = wordsLoop ws a v ++ wordsLoop ws b (v / 2 ^ (ws * a)) := by
  induction a generalizing v with
  | zero => simp [wordsLoop]
  | succ a ih =>
    rw [Nat.succ_add]
    simp only [wordsLoop, ih, List.cons_append, Nat.shiftRight_eq_div_pow]
    rw [Nat.div_div_eq_div_mul, Nat.mul_succ, Nat.add_comm (ws * a) ws, Nat.pow_add]

theorem wordsLoop_mod (ws n v : Nat) : wordsLoop ws n (v % 2 ^ (ws * n)) = wordsLoop ws n v := by
  induction n generalizing v with
  | zero => rfl
  | succ n ih =>
    simp only [wordsLoop, Nat.and_two_pow_sub_one_eq_mod, Nat.shiftRight_eq_div_pow]
    rw [Nat.mul_succ, Nat.add_comm (ws * n) ws, Nat.pow_add]
    rw [Nat.mod_mul_right_div_self, ih]
    congr 1
    rw [Nat.mod_mul]
    simp [Nat.add_mul_mod_self_left]

/-- `a + b` big-endian bytes = the top `a` bytes then the low `b` bytes -/
theorem beBytes_add (a b v : Nat) :
    beBytes (a + b) v = beBytes a (v / 2 ^ (8 * b)) ++ beBytes b v := by
  simp only [beBytes, leBytes_eq]
  rw [Nat.add_comm a b, wordsLoop_add, List.reverse_append]

theorem beBytes_mod (n v : Nat) : beBytes n (v % 2 ^ (8 * n)) = beBytes n v := by
  simp only [beBytes, leBytes_eq, wordsLoop_mod]

/-- the words of v, each as k bytes, concatenated most significant first = the bytes of v -/
theorem flatten_beBytes_words (k n v : Nat) :
    ((wordsLoop (8 * k) n v).reverse.map (beBytes k)).flatten = beBytes (k * n) v := by
  induction n generalizing v with
  | zero => simp [wordsLoop, beBytes, leBytes]
  | succ n ih =>
    simp only [wordsLoop, List.reverse_cons, List.map_append, List.flatten_append, List.map_cons,
      List.map_nil, List.flatten_cons, List.flatten_nil, List.append_nil, ih,
      Nat.and_two_pow_sub_one_eq_mod, Nat.shiftRight_eq_div_pow]
    rw [Nat.mul_succ, Nat.add_comm (k * n) k, Nat.add_comm k (k*n), beBytes_add, beBytes_mod]

theorem mapM_ok {α β} (f : α → R β) (g : α → β) (xs : List α) (h : ∀ x ∈ xs, f x = .ok (g x)) :
    xs.mapM f = .ok (xs.map g) := by
  induction xs with
  | nil => rfl
  | cons x t ih =>
    rw [List.mapM_cons, h x (by simp), ih (fun y hy => h y (by simp [hy]))]
    rfl

theorem chunks_length (k n : Nat) (bs : List Nat) : (chunks k n bs).length = n := by
  induction n generalizing bs with
  | zero => rfl
  | succ n ih => simp [chunks, ih]

/-- value of the chunk values, recombined in base 256^k, is the value of the byte string -/
theorem leValue_chunks (k n : Nat) (bs : List Nat) (hl : bs.length = k * n) :
    leValue (8 * k) ((chunks k n bs).map beValue).reverse = beValue bs := by
  induction n generalizing bs with
  | zero =>
    have : bs = [] := List.length_eq_zero_iff.mp (by simpa using hl)
    subst this; simp [chunks, leValue, beValue]
  | succ n ih =>
    simp only [chunks, List.map_cons, List.reverse_cons, leValue_append, leValue, List.length_reverse,
      List.length_map, chunks_length]
    have hd : (bs.drop k).length = k * n := by simp [hl, Nat.mul_succ]
    rw [ih _ hd]
    conv => rhs; rw [← List.take_append_drop k bs, beValue_append]
    rw [hd, Nat.mul_assoc]
    simp only [Nat.mul_zero, Nat.add_zero]
    rw [Nat.mul_comm]; omega

theorem chunk_values_lt (k n : Nat) (bs : List Nat) (hb : ∀ b ∈ bs, b < 256) :
    ∀ x ∈ (chunks k n bs).map beValue, x < 2 ^ (8 * k) := by
  induction n generalizing bs with
  | zero => simp [chunks]
  | succ n ih =>
    intro x hx
    simp only [chunks, List.map_cons, List.mem_cons] at hx
    rcases hx with h | h
    · subst h
      have h1 := beValue_lt (bs.take k) (fun b hb' => hb b (List.mem_of_mem_take hb'))
      have h2 : (bs.take k).length ≤ k := by simp [List.length_take]; omega
      exact Nat.lt_of_lt_of_le h1 (Nat.pow_le_pow_right (by decide) (Nat.mul_le_mul_left 8 h2))
    · exact ih _ (fun b hb' => hb b (List.mem_of_mem_drop hb')) x h

/-- struct.unpack of `n` fields of `k` bytes followed by the or/shift fold = the big-endian value -/
theorem unpack_orShift (k n : Nat) (bs : List Nat) (hl : bs.length = k * n) (hb : ∀ b ∈ bs, b < 256) :
    orShift (8 * k) ((chunks k n bs).map beValue).reverse 0 0 = beValue bs := by
  rw [orShift_zero _ _ (fun x hx => chunk_values_lt k n bs hb x (by simpa using hx))]
  exact leValue_chunks k n bs hl

end NV.Codec
