import NetaddrVerif.Lemmas.Canon

namespace NV

-- Prototype: the sibling-merge loop of IPSet._compact_single_network at spec level
open Blk

/-- unordered canonical set of blocks -/
structure CanonSet (l : List Blk) : Prop where
  al : ∀ b ∈ l, b.aligned
  dj : ∀ b ∈ l, ∀ c ∈ l, b ≠ c → b.disj c
  ns : ∀ b ∈ l, ∀ c ∈ l, ¬ b.sib c

/-- the other half of the parent (`previous()` if the low network bit is 1, else `next()`) -/
def sibling (b : Blk) : Blk :=
  if b.base % 2 ^ (b.k + 1) = 0 then ⟨b.base + 2 ^ b.k, b.k⟩ else ⟨b.base - 2 ^ b.k, b.k⟩

theorem pow_succ2 (k : Nat) : 2 ^ (k + 1) = 2 ^ k * 2 := by rw [Nat.pow_succ]

/-- facts about the sibling of an aligned block -/
theorem sibling_spec (b : Blk) (hb : b.aligned) :
    (sibling b).aligned ∧ (sibling b).k = b.k ∧ (b.sib (sibling b) ∨ (sibling b).sib b) ∧
    (∀ a, b.parent.mem a ↔ b.mem a ∨ (sibling b).mem a) ∧ b.disj (sibling b) := by
  obtain ⟨base, k⟩ := b
  have hp := pow_pos' k
  have e := pow_succ2 k
  simp only [aligned] at hb
  -- base = 2^k * q
  obtain ⟨q, hq⟩ := Nat.dvd_of_mod_eq_zero hb
  by_cases h : base % 2 ^ (k + 1) = 0
  · -- lower half
    have hs : sibling ⟨base, k⟩ = ⟨base + 2 ^ k, k⟩ := by simp [sibling, h]
    rw [hs]
    have hpar : (Blk.parent ⟨base, k⟩).base = base := by
      simp only [parent]
      have := Nat.div_add_mod base (2 ^ (k + 1))
      rw [h] at this; rw [Nat.mul_comm]; omega
    refine ⟨?_, rfl, Or.inl ⟨rfl, h, rfl⟩, ?_, ?_⟩
    · show (base + 2 ^ k) % 2 ^ k = 0
      rw [Nat.add_mod, hb]; simp
    · intro a
      simp only [mem, hpar]
      show base ≤ a ∧ a < base + 2 ^ (k + 1) ↔ _
      rw [e]; omega
    · intro a; simp only [mem]; omega
  · -- upper half
    have hs : sibling ⟨base, k⟩ = ⟨base - 2 ^ k, k⟩ := by simp [sibling, h]
    rw [hs]
    -- q is odd
    have hqodd : q % 2 = 1 := by
      rcases Nat.mod_two_eq_zero_or_one q with h0 | h1
      · exfalso; apply h
        obtain ⟨r, hr⟩ := Nat.dvd_of_mod_eq_zero h0
        rw [hq, hr, e, ← Nat.mul_assoc]; simp
      · exact h1
    have hq1 : 1 ≤ q := by omega
    have hge : 2 ^ k ≤ base := by
      rw [hq]; exact Nat.le_mul_of_pos_right _ (by omega)
    have hlow : (base - 2 ^ k) % 2 ^ (k + 1) = 0 := by
      have : base - 2 ^ k = 2 ^ k * (q - 1) := by rw [hq, Nat.mul_sub_one]
      rw [this]
      obtain ⟨r, hr⟩ : 2 ∣ (q - 1) := by omega
      rw [hr, e, ← Nat.mul_assoc]; simp
    have hpar : (Blk.parent ⟨base, k⟩).base = base - 2 ^ k := by
      simp only [parent]
      -- base = (base - 2^k) + 2^k with (base-2^k) multiple of 2^(k+1)
      obtain ⟨m, hm⟩ := Nat.dvd_of_mod_eq_zero hlow
      have hb' : base = 2 ^ (k + 1) * m + 2 ^ k := by omega
      have hlt : 2 ^ k < 2 ^ (k + 1) := by rw [e]; omega
      rw [hb', Nat.mul_add_div (pow_pos' (k + 1)), Nat.div_eq_of_lt hlt]
      simp [Nat.mul_comm]
    refine ⟨?_, rfl, Or.inr ⟨rfl, hlow, by simp; omega⟩, ?_, ?_⟩
    · show (base - 2 ^ k) % 2 ^ k = 0
      have : base - 2 ^ k = 2 ^ k * (q - 1) := by rw [hq, Nat.mul_sub_one]
      rw [this]; simp
    · intro a
      simp only [mem, hpar]
      show base - 2 ^ k ≤ a ∧ a < base - 2 ^ k + 2 ^ (k + 1) ↔ _
      rw [e]; omega
    · intro a; simp only [mem]; omega


/-- the merge loop: while the sibling is present, replace both by the parent -/
def mergeUp : Nat → List Blk → Blk → List Blk
  | 0, l, b => b :: l
  | fuel + 1, l, b =>
    if sibling b ∈ l then mergeUp fuel (l.erase (sibling b)) b.parent else b :: l

theorem mergeUp_spec : ∀ (fuel : Nat) (l : List Blk) (b : Blk),
    l.length ≤ fuel → l.Nodup → CanonSet l → b.aligned → (∀ c ∈ l, b.disj c) →
    CanonSet (mergeUp fuel l b) ∧ (∀ a, den (mergeUp fuel l b) a ↔ den l a ∨ b.mem a) := by
  intro fuel
  induction fuel with
  | zero =>
    intro l b hlen _ hc hb hd
    have : l = [] := List.eq_nil_of_length_eq_zero (by omega)
    subst this
    simp only [mergeUp]
    refine ⟨⟨?_, ?_, ?_⟩, ?_⟩
    · intro x hx; simp at hx; subst hx; exact hb
    · intro x hx y hy hne; simp at hx hy; subst hx; subst hy; exact absurd rfl hne
    · intro x hx y hy hs; simp at hx hy; rw [hx, hy] at hs
      obtain ⟨_, _, h3⟩ := hs
      have := pow_pos' b.k; omega
    · intro a; simp [den]
  | succ fuel ih =>
    intro l b hlen hnd hc hb hd
    obtain ⟨hsa, hsk, hsib, hpar, hbs⟩ := sibling_spec b hb
    simp only [mergeUp]
    by_cases hs : sibling b ∈ l
    · simp only [hs, if_true]
      have hsub : ∀ x, x ∈ l.erase (sibling b) → x ∈ l := fun x hx => List.mem_of_mem_erase hx
      have hne : ∀ x, x ∈ l.erase (sibling b) → x ≠ sibling b := by
        intro x hx e; subst e
        exact (List.Nodup.mem_erase_iff hnd).1 hx |>.1 rfl
      have hc' : CanonSet (l.erase (sibling b)) :=
        ⟨fun x hx => hc.al x (hsub x hx),
         fun x hx y hy h => hc.dj x (hsub x hx) y (hsub y hy) h,
         fun x hx y hy => hc.ns x (hsub x hx) y (hsub y hy)⟩
      have hd' : ∀ c ∈ l.erase (sibling b), b.parent.disj c := by
        intro c hc1 a ⟨h1, h2⟩
        rcases (hpar a).1 h1 with h | h
        · exact hd c (hsub c hc1) a ⟨h, h2⟩
        · exact hc.dj (sibling b) hs c (hsub c hc1) (hne c hc1).symm a ⟨h, h2⟩
      have hlen' : (l.erase (sibling b)).length ≤ fuel := by
        rw [List.length_erase_of_mem hs]; omega
      obtain ⟨r1, r2⟩ := ih (l.erase (sibling b)) b.parent hlen' (hnd.erase _) hc' (parent_aligned b) hd'
      refine ⟨r1, ?_⟩
      intro a
      rw [r2 a, hpar a]
      constructor
      · rintro (⟨x, hx, hxa⟩ | h | h)
        · exact Or.inl ⟨x, hsub x hx, hxa⟩
        · exact Or.inr h
        · exact Or.inl ⟨sibling b, hs, h⟩
      · rintro (⟨x, hx, hxa⟩ | h)
        · by_cases e : x = sibling b
          · subst e; exact Or.inr (Or.inr hxa)
          · exact Or.inl ⟨x, (List.mem_erase_of_ne e).2 hx, hxa⟩
        · exact Or.inr (Or.inl h)
    · simp only [hs, if_false]
      refine ⟨⟨?_, ?_, ?_⟩, ?_⟩
      · intro x hx
        rcases List.mem_cons.1 hx with e | e
        · subst e; exact hb
        · exact hc.al x e
      · intro x hx y hy hne
        rcases List.mem_cons.1 hx with ex | ex <;> rcases List.mem_cons.1 hy with ey | ey
        · subst ex; subst ey; exact absurd rfl hne
        · subst ex; exact hd y ey
        · subst ey; intro a ⟨h1, h2⟩; exact hd x ex a ⟨h2, h1⟩
        · exact hc.dj x ex y ey hne
      · intro x hx y hy hsxy
        -- a sibling pair involving b would put `sibling b` into l
        have key : ∀ z ∈ l, (b.sib z ∨ z.sib b) → False := by
          intro z hz hbz
          apply hs
          have hzal := hc.al z hz
          -- z is aligned, same size as sibling b, and shares its base point
          have hzk : z.k = (sibling b).k := by
            rcases hbz with h | h
            · rw [hsk]; exact h.1.symm
            · rw [hsk]; exact h.1
          -- both are halves of b.parent different from b
          have hzm : (sibling b).mem z.base := by
            have hzp : b.parent.mem z.base := by
              rcases hbz with ⟨h1, h2, h3⟩ | ⟨h1, h2, h3⟩
              · -- b lower, z upper
                have : b.parent.base = b.base := by
                  simp only [parent]
                  have := Nat.div_add_mod b.base (2 ^ (b.k + 1))
                  rw [h2] at this; rw [Nat.mul_comm]; omega
                simp only [mem, this]
                show b.base ≤ z.base ∧ z.base < b.base + 2 ^ (b.k + 1)
                rw [pow_succ2]; have := pow_pos' b.k; omega
              · -- z lower, b upper
                have hp2 : b.parent.mem b.base := sub_parent b hb _ (mem_base b)
                have hzpar : z.parent.base = z.base := by
                  simp only [parent]
                  have := Nat.div_add_mod z.base (2 ^ (z.k + 1))
                  rw [h2] at this; rw [Nat.mul_comm]; omega
                -- b lies in z's parent, hence parents coincide
                have hbz' : z.parent.mem b.base := by
                  simp only [mem, hzpar]
                  show z.base ≤ b.base ∧ b.base < z.base + 2 ^ (z.k + 1)
                  rw [pow_succ2]; have := pow_pos' z.k; omega
                have hk : b.parent.k = z.parent.k := by simp [parent]; exact h1.symm
                have := eq_of_share b.parent z.parent (parent_aligned b) (parent_aligned z) hk b.base hp2 hbz'
                rw [this]
                exact sub_parent z hzal _ (mem_base z)
            rcases (hpar z.base).1 hzp with h | h
            · exfalso; exact hd z hz z.base ⟨h, mem_base z⟩
            · exact h
          have := eq_of_share z (sibling b) hzal hsa hzk z.base (mem_base z) hzm
          exact this ▸ hz
        rcases List.mem_cons.1 hx with ex | ex <;> rcases List.mem_cons.1 hy with ey | ey
        · rw [ex, ey] at hsxy
          obtain ⟨_, _, h3⟩ := hsxy
          have := pow_pos' b.k; omega
        · subst ex; exact key y ey (Or.inl hsxy)
        · subst ey; exact key x ex (Or.inr hsxy)
        · exact hc.ns x ex y ey hsxy
      · intro a
        simp only [den, List.mem_cons]
        constructor
        · rintro ⟨x, hx | hx, hxa⟩
          · subst hx; exact Or.inr hxa
          · exact Or.inl ⟨x, hx, hxa⟩
        · rintro (⟨x, hx, hxa⟩ | h)
          · exact ⟨x, Or.inr hx, hxa⟩
          · exact ⟨b, Or.inl rfl, h⟩

end NV
