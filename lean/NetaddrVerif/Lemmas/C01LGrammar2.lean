/-
Lemmas/C01LGrammar2.lean — the token loop `Text6.groups` and the trimming steps of the
split-style model `Text6.pton6`, characterised exactly in terms of the grammar's notions
(`IsGroup`, `IsTail`).  Core Lean only.
-/
import NetaddrVerif.Lemmas.C01LGrammar
namespace NV.C01G
open NV NV.Text4 NV.Text6

/-- no empty piece -/
def NoEmpty (ts : List (List Char)) : Prop := ∀ t ∈ ts, t ≠ []

theorem noEmpty_groups (G : List (List Char)) (h : ∀ t ∈ G, IsGroup t) : NoEmpty G :=
  fun t ht => group_ne_nil t (h t ht)

theorem tail_noEmpty (q : List (List Char)) (qw : List Nat) (h : IsTail q qw) : NoEmpty q := by
  rcases h with ⟨rfl, _⟩ | ⟨t, x, hq, rfl, _⟩
  · intro t ht; simp at ht
  · intro t' ht'; simp only [List.mem_singleton] at ht'; subst ht'; exact quad_ne_nil _ _ hq

theorem tail_length (q : List (List Char)) (qw : List Nat) (h : IsTail q qw) :
    (q = [] ∧ qw.length = 0) ∨ (q.length = 1 ∧ qw.length = 2) := by
  rcases h with ⟨rfl, rfl⟩ | ⟨t, x, _, rfl, rfl⟩
  · exact Or.inl ⟨rfl, rfl⟩
  · exact Or.inr ⟨rfl, rfl⟩

theorem tail_no_colon (q : List (List Char)) (qw : List Nat) (h : IsTail q qw) : ∀ t ∈ q, ':' ∉ t := by
  rcases h with ⟨rfl, _⟩ | ⟨t, x, hq, rfl, _⟩
  · intro t ht; simp at ht
  · intro t' ht'; simp only [List.mem_singleton] at ht'; subst ht'; exact quad_no_colon _ _ hq

/-- one step of the loop on a group -/
theorem groups_group (t : List Char) (h : IsGroup t) (rest : List (List Char)) (acc : List Nat) (gap : Option Nat) :
    groups (t :: rest) acc gap = groups rest (acc ++ [numVal 16 t]) gap := by
  have h1 := C01L.isEmpty_false_of_ne (group_ne_nil t h)
  have h2 := C01L.contains_false_of_not_mem (group_no_dot t h)
  have h3 := (hextet_iff t _).mpr ⟨h, rfl⟩
  simp only [groups, h1, h2, h3, Bool.false_eq_true, if_false]

/-- the loop over a run of groups -/
theorem groups_run (G : List (List Char)) (h : ∀ t ∈ G, IsGroup t) (rest : List (List Char)) (acc : List Nat)
    (gap : Option Nat) : groups (G ++ rest) acc gap = groups rest (acc ++ G.map (numVal 16)) gap := by
  induction G generalizing acc with
  | nil => simp
  | cons t G' ih =>
    rw [List.cons_append, groups_group t (h t (by simp)), ih (fun x hx => h x (by simp [hx]))]
    simp

/-- the loop on the optional tail in last position -/
theorem groups_tail (q : List (List Char)) (qw : List Nat) (h : IsTail q qw) (acc : List Nat) (gap : Option Nat) :
    groups q acc gap = some (acc ++ qw, gap) := by
  rcases h with ⟨rfl, rfl⟩ | ⟨t, x, hq, rfl, rfl⟩
  · simp [groups]
  · have h1 := C01L.isEmpty_false_of_ne (quad_ne_nil t x hq)
    have h2 : t.contains '.' = true := List.contains_iff_mem.mpr (quad_has_dot t x hq)
    have h3 := (pton4_iff_quad t x).mpr hq
    simp only [groups, h1, h2, h3, Bool.false_eq_true, if_false, List.isEmpty_nil, Bool.not_true, if_true]

/-- a non-empty first piece that the loop accepts is a group (then the loop goes on) or a
    dotted quad in last position -/
theorem groups_cons_ne (t : List Char) (ht : t ≠ []) (rest : List (List Char)) (acc : List Nat) (gap : Option Nat)
    (r : List Nat × Option Nat) (h : groups (t :: rest) acc gap = some r) :
    (IsGroup t ∧ groups rest (acc ++ [numVal 16 t]) gap = some r) ∨
    (rest = [] ∧ ∃ x, IsQuad t x ∧ r = (acc ++ [x / 65536, x % 65536], gap)) := by
  have h1 := C01L.isEmpty_false_of_ne ht
  unfold groups at h
  simp only [h1, Bool.false_eq_true, if_false] at h
  by_cases hd : t.contains '.' = true
  · simp only [hd, if_true] at h
    cases rest with
    | cons a b => simp at h
    | nil =>
      simp only [List.isEmpty_nil, Bool.not_true, Bool.false_eq_true, if_false] at h
      cases hp : Text4.pton4 t with
      | none => simp [hp] at h
      | some x =>
        simp only [hp, Option.some.injEq] at h
        exact Or.inr ⟨rfl, x, (pton4_iff_quad t x).mp hp, h.symm⟩
  · simp only [hd, Bool.false_eq_true, if_false] at h
    cases hh : hextet t with
    | none => simp [hh] at h
    | some n =>
      simp only [hh] at h
      obtain ⟨hg, rfl⟩ := (hextet_iff t n).mp hh
      exact Or.inl ⟨hg, h⟩

/-- **the loop on pieces without an empty one**: accepted exactly when the pieces are groups
    followed by the optional dotted-quad tail; the gap marker is untouched -/
theorem groups_noEmpty_iff (T : List (List Char)) (hT : NoEmpty T) (acc : List Nat) (gap : Option Nat)
    (ws : List Nat) (g : Option Nat) :
    groups T acc gap = some (ws, g) ↔
      g = gap ∧ ∃ G q qw, T = G ++ q ∧ (∀ t ∈ G, IsGroup t) ∧ IsTail q qw ∧ ws = acc ++ (G.map (numVal 16) ++ qw) := by
  constructor
  · intro h
    induction T generalizing acc with
    | nil =>
      simp only [groups, Option.some.injEq, Prod.mk.injEq] at h
      exact ⟨h.2.symm, [], [], [], rfl, by simp, Or.inl ⟨rfl, rfl⟩, by simp [h.1]⟩
    | cons t rest ih =>
      rcases groups_cons_ne t (hT t (by simp)) rest acc gap _ h with ⟨hg, h'⟩ | ⟨rfl, x, hq, hr⟩
      · obtain ⟨e1, G, q, qw, e2, hG, hq, e3⟩ := ih (fun x hx => hT x (by simp [hx])) _ h'
        refine ⟨e1, t :: G, q, qw, by rw [e2]; rfl, ?_, hq, ?_⟩
        · intro y hy
          rcases List.mem_cons.mp hy with e | e
          · subst e; exact hg
          · exact hG y e
        · rw [e3]; simp
      · simp only [Prod.mk.injEq] at hr
        exact ⟨hr.2, [], [t], _, rfl, by simp, Or.inr ⟨t, x, hq, rfl, rfl⟩, by simp [hr.1]⟩
  · rintro ⟨rfl, G, q, qw, rfl, hG, hq, rfl⟩
    rw [groups_run G hG, groups_tail q qw hq]
    simp

/-- **the loop up to the first empty piece**: the pieces before it must all be groups; the
    empty piece sets the gap marker to the number of groups read so far -/
theorem groups_prefix_iff (A : List (List Char)) (hA : NoEmpty A) (R : List (List Char)) (acc : List Nat)
    (gap : Option Nat) (r : List Nat × Option Nat) :
    groups (A ++ [] :: R) acc gap = some r ↔
      (∀ t ∈ A, IsGroup t) ∧ groups R (acc ++ A.map (numVal 16)) (some (acc.length + A.length)) = some r := by
  constructor
  · intro h
    induction A generalizing acc with
    | nil =>
      simp only [List.nil_append, groups, List.isEmpty_nil, if_true] at h
      exact ⟨by simp, by simpa using h⟩
    | cons t A' ih =>
      rw [List.cons_append] at h
      rcases groups_cons_ne t (hA t (by simp)) _ acc gap _ h with ⟨hg, h'⟩ | ⟨e, _⟩
      · obtain ⟨hG, h''⟩ := ih (fun x hx => hA x (by simp [hx])) _ h'
        refine ⟨?_, ?_⟩
        · intro y hy
          rcases List.mem_cons.mp hy with e | e
          · subst e; exact hg
          · exact hG y e
        · simp only [List.length_append, List.length_cons, List.length_nil, List.map_cons] at h'' ⊢
          rw [List.append_assoc] at h''
          rw [show acc.length + (A'.length + 1) = acc.length + (0 + 1) + A'.length by omega]
          exact h''
      · simp at e
  · rintro ⟨hG, h⟩
    rw [groups_run A hG]
    simp only [groups, List.isEmpty_nil, if_true, List.length_append, List.length_map]
    exact h

/-! ### the trimming steps -/

theorem trimFront_iff (t0 t1 : List Char) (r M : List (List Char)) :
    trimFront (t0 :: t1 :: r) = some M ↔
      (t0 = [] ∧ t1 = [] ∧ M = [] :: r) ∨ (t0 ≠ [] ∧ M = t0 :: t1 :: r) := by
  unfold trimFront
  cases t0 with
  | nil =>
    cases t1 with
    | nil => simp [eq_comm]
    | cons a b => simp
  | cons a b => simp [eq_comm]

theorem trimBack_iff (T M : List (List Char)) (hT : T ≠ []) :
    trimBack T = some M ↔
      (∃ L, T = L ++ [[], []] ∧ M = L ++ [[]]) ∨ (T.getLast? ≠ some [] ∧ M = T) := by
  obtain ⟨L, t, rfl⟩ : ∃ L t, T = L ++ [t] := by
    rcases List.eq_nil_or_concat T with h | ⟨L, t, h⟩
    · exact absurd h hT
    · exact ⟨L, t, by rw [h, List.concat_eq_append]⟩
  unfold trimBack
  rw [List.dropLast_concat]
  simp only [List.getLast?_append, List.getLast?_singleton, Option.some_or, beq_iff_eq, Option.some.injEq]
  by_cases ht : t = []
  · subst ht
    simp only [if_true, ne_eq, not_true_eq_false, false_and, or_false]
    constructor
    · intro h
      split at h
      · rename_i hl
        cases h
        obtain ⟨L', rfl⟩ := List.getLast?_eq_some_iff.mp hl
        exact ⟨L', by simp, rfl⟩
      · cases h
    · rintro ⟨L', e, rfl⟩
      have : L = L' ++ [[]] := by
        have e' : L ++ [[]] = (L' ++ [[]]) ++ [[]] := by rw [e]; simp
        exact List.append_cancel_right e'
      subst this
      simp
  · simp only [ht, if_false, Option.some.injEq, ne_eq, not_false_eq_true, true_and]
    constructor
    · intro h; exact Or.inr h.symm
    · rintro (⟨L', e, _⟩ | h)
      · exfalso
        have e' : L ++ [t] = (L' ++ [[]]) ++ [[]] := by rw [e]; simp
        have := List.append_inj_right' e' rfl
        simp only [List.cons.injEq, and_true] at this
        exact ht this
      · exact h.symm

/-! ### lists with at most one empty piece -/

theorem filter_isEmpty_eq_nil_iff (T : List (List Char)) : T.filter List.isEmpty = [] ↔ NoEmpty T := by
  rw [List.filter_eq_nil_iff]
  constructor
  · intro h t ht e; exact h t ht (by rw [e]; rfl)
  · intro h t ht e; exact h t ht (List.isEmpty_iff.mp e)

/-- at most one empty piece: none, or the list splits around the only one -/
theorem one_empty (T : List (List Char)) (h : ¬ (T.filter List.isEmpty).length > 1) :
    NoEmpty T ∨ ∃ A B, T = A ++ [] :: B ∧ NoEmpty A ∧ NoEmpty B := by
  induction T with
  | nil => left; intro t ht; simp at ht
  | cons t r ih =>
    by_cases ht : t = []
    · subst ht
      right
      refine ⟨[], r, rfl, by intro t ht; simp at ht, ?_⟩
      rw [← filter_isEmpty_eq_nil_iff]
      simp only [List.filter_cons, List.isEmpty_nil, if_true, List.length_cons] at h
      cases hf : r.filter List.isEmpty with
      | nil => rfl
      | cons a b => rw [hf] at h; simp at h
    · have hne : t.isEmpty = false := C01L.isEmpty_false_of_ne ht
      simp only [List.filter_cons, hne, Bool.false_eq_true, if_false] at h
      rcases ih h with h' | ⟨A, B, e, hA, hB⟩
      · left
        intro x hx
        rcases List.mem_cons.mp hx with e | e
        · subst e; exact ht
        · exact h' x e
      · right
        refine ⟨t :: A, B, by rw [e]; rfl, ?_, hB⟩
        intro x hx
        rcases List.mem_cons.mp hx with e | e
        · subst e; exact ht
        · exact hA x e

theorem filter_one (A B : List (List Char)) (hA : NoEmpty A) (hB : NoEmpty B) :
    ((A ++ [] :: B).filter List.isEmpty).length = 1 := by
  rw [List.filter_append, List.filter_cons, (filter_isEmpty_eq_nil_iff A).mpr hA, (filter_isEmpty_eq_nil_iff B).mpr hB]
  simp

end NV.C01G
