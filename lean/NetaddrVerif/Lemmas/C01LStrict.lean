/-
Lemmas/C01LStrict.lean — the strict IPv4 reader accepts exactly the canonical dotted quads:
`pton4 s = some v ↔ v < 2^32 ∧ s = ntoa v`.  Core Lean only.
-/
import NetaddrVerif.Lemmas.C01L4
namespace NV.C01L
open NV NV.Text4

theorem isDec_digitChar (c : Char) (h : isDec c = true) : ∃ d, d < 10 ∧ c = Nat.digitChar d := by
  simp only [isDec, Bool.and_eq_true, decide_eq_true_eq] at h
  obtain ⟨h1, h2⟩ := h
  have h1' : 48 ≤ c.toNat := Char.le_def.mp h1
  have h2' : c.toNat ≤ 57 := Char.le_def.mp h2
  refine ⟨c.toNat - 48, by omega, ?_⟩
  have hc : c = Char.ofNat c.toNat := (Char.ofNat_toNat c).symm
  have hk : ∀ k, k < 10 → Char.ofNat (48 + k) = Nat.digitChar k := by decide
  have e : Char.ofNat c.toNat = Nat.digitChar (c.toNat - 48) := by
    have := hk (c.toNat - 48) (by omega)
    rwa [show 48 + (c.toNat - 48) = c.toNat by omega] at this
  exact hc.trans e

/-- complete finite domain: all digit strings of length 1..3 -/
def canonOK (t : List Char) : Bool :=
  match Text4.octet t with
  | some n => decide (n < 256) && (t == dec n)
  | none => true

theorem canon1 : ∀ d1, d1 < 10 → canonOK [Nat.digitChar d1] = true := by decide +kernel
theorem canon2 : ∀ d1, d1 < 10 → ∀ d2, d2 < 10 → canonOK [Nat.digitChar d1, Nat.digitChar d2] = true := by
  decide +kernel
theorem canon3 : ∀ d1, d1 < 10 → ∀ d2, d2 < 10 → ∀ d3, d3 < 10 →
    canonOK [Nat.digitChar d1, Nat.digitChar d2, Nat.digitChar d3] = true := by decide +kernel

/-- an accepted octet token is the canonical numeral of its value -/
theorem octet_canon (t : List Char) (n : Nat) (h : Text4.octet t = some n) : n < 256 ∧ t = dec n := by
  have hk : canonOK t = true := by
    have hcond : 1 ≤ t.length ∧ t.length ≤ 3 ∧ t.all isDec = true := by
      unfold Text4.octet at h
      split at h
      · rename_i hc; exact ⟨hc.1, hc.2.1, hc.2.2.1⟩
      · cases h
    obtain ⟨hl1, hl3, hall⟩ := hcond
    have hd : ∀ c ∈ t, ∃ d, d < 10 ∧ c = Nat.digitChar d := fun c hc => isDec_digitChar c (List.all_eq_true.mp hall c hc)
    match t, hl1, hl3, hd with
    | [c1], _, _, hd =>
      obtain ⟨d1, h1, rfl⟩ := hd c1 (by simp)
      exact canon1 d1 h1
    | [c1, c2], _, _, hd =>
      obtain ⟨d1, h1, rfl⟩ := hd c1 (by simp)
      obtain ⟨d2, h2, rfl⟩ := hd c2 (by simp)
      exact canon2 d1 h1 d2 h2
    | [c1, c2, c3], _, _, hd =>
      obtain ⟨d1, h1, rfl⟩ := hd c1 (by simp)
      obtain ⟨d2, h2, rfl⟩ := hd c2 (by simp)
      obtain ⟨d3, h3, rfl⟩ := hd c3 (by simp)
      exact canon3 d1 h1 d2 h2 d3 h3
    | [], h0, _, _ => simp at h0
    | _ :: _ :: _ :: _ :: _, _, h4, _ => simp at h4
  unfold canonOK at hk
  rw [h] at hk
  simp only [Bool.and_eq_true, decide_eq_true_eq, beq_iff_eq] at hk
  exact hk

/-- **strict IPv4 = the standard dotted quad**: accepted strings are exactly the canonical
    prints, with their values -/
theorem pton4_iff (s : List Char) (v : Nat) : Text4.pton4 s = some v ↔ v < 2 ^ 32 ∧ s = ntoa v := by
  constructor
  · intro h
    have hjoin := List.intercalate_splitOn (xs := s) '.'
    unfold Text4.pton4 at h
    generalize s.splitOn '.' = toks at h hjoin
    match toks, h with
    | [a, b, c, d], h =>
      cases ha : Text4.octet a with
      | none => simp [ha] at h
      | some na =>
        cases hb : Text4.octet b with
        | none => simp [ha, hb] at h
        | some nb =>
          cases hc : Text4.octet c with
          | none => simp [ha, hb, hc] at h
          | some nc =>
            cases hd : Text4.octet d with
            | none => simp [ha, hb, hc, hd] at h
            | some nd =>
              simp only [ha, hb, hc, hd, Option.some.injEq] at h
              obtain ⟨la, ea⟩ := octet_canon a na ha
              obtain ⟨lb, eb⟩ := octet_canon b nb hb
              obtain ⟨lc, ec⟩ := octet_canon c nc hc
              obtain ⟨ld, ed⟩ := octet_canon d nd hd
              subst h
              refine ⟨by omega, ?_⟩
              rw [← hjoin, ntoa_eq, ea, eb, ec, ed]
              have e0 : (na * 16777216 + nb * 65536 + nc * 256 + nd) / 16777216 = na := by omega
              have e1 : (na * 16777216 + nb * 65536 + nc * 256 + nd) / 65536 % 256 = nb := by omega
              have e2 : (na * 16777216 + nb * 65536 + nc * 256 + nd) / 256 % 256 = nc := by omega
              have e3 : (na * 16777216 + nb * 65536 + nc * 256 + nd) % 256 = nd := by omega
              rw [e0, e1, e2, e3]
    | [], h => simp at h
    | [_], h => simp at h
    | [_, _], h => simp at h
    | [_, _, _], h => simp at h
    | _ :: _ :: _ :: _ :: _ :: _, h => simp at h
  · rintro ⟨hv, rfl⟩
    exact pton4_ntoa v hv

end NV.C01L
