/-
Lemmas/C18L.lean — helper lemmas for C18: a table scan of Model/Classify.lean holds iff the
object lies inside one row's `[first, last]`; two interval lists with the same members cover
the same objects.  Core Lean only.
-/
import NetaddrVerif.Lemmas.C04L
import NetaddrVerif.Model.Classify
namespace NV.Classify
open NV NV.Contains

/-- an interval of one family: `(version, first, last)` -/
abbrev Iv := Nat × Nat × Nat

def rowIv (r : Row) : Iv := (r.2.1, r.2.2.1, r.2.2.2)

/-- "`[f, l]` of version `ver` lies inside a single block of the list" -/
def InAny (s : List Iv) (ver f l : Nat) : Prop := ∃ b ∈ s, b.1 = ver ∧ b.2.1 ≤ f ∧ l ≤ b.2.2

/-- checkable well-formedness of a generated row: family 4/6, `first <= last < 2^width`, and
    the rebuilt container object really has the row's version / first / last -/
def rowOK (r : Row) : Bool :=
  (r.2.1 == 4 || r.2.1 == 6) && decide (r.2.2.1 ≤ r.2.2.2) && decide (r.2.2.2 < 2 ^ width r.2.1) &&
  ((rowCont r).ver == r.2.1) && ((rowCont r).first == r.2.2.1) && ((rowCont r).last == r.2.2.2) &&
  (match rowCont r with
   | .net n => decide (n.val ≤ r.2.2.2) && decide (n.plen ≤ width n.ver)
   | .rng _ => true)

theorem rowOK_spec (r : Row) (h : rowOK r = true) :
    (rowCont r).WF ∧ (rowCont r).ver = r.2.1 ∧ (rowCont r).first = r.2.2.1 ∧ (rowCont r).last = r.2.2.2 := by
  unfold rowOK at h
  simp only [Bool.and_eq_true, Bool.or_eq_true, beq_iff_eq, decide_eq_true_iff] at h
  obtain ⟨⟨⟨⟨⟨⟨hv, hle⟩, hlt⟩, e1⟩, e2⟩, e3⟩, hm⟩ := h
  refine ⟨?_, e1, e2, e3⟩
  cases hc : rowCont r with
  | net n =>
    rw [hc] at hm e1
    simp only [Bool.and_eq_true, decide_eq_true_iff] at hm
    simp only [Cont.ver] at e1
    refine ⟨by rw [e1]; exact hv, ?_, hm.2⟩
    rw [e1]; omega
  | rng q =>
    rw [hc] at e1 e2 e3
    simp only [Cont.ver, Cont.first, Cont.last] at e1 e2 e3
    refine ⟨by rw [e1]; exact hv, by omega, ?_⟩
    rw [e1, e3]; exact hlt

/-- `x` lies inside the row's interval -/
def rowHit (x : Obj) (r : Row) : Prop := r.2.1 = x.ver ∧ r.2.2.1 ≤ x.first ∧ x.last ≤ r.2.2.2

theorem inRow_iff (x : Obj) (hx : x.WF) (r : Row) (h : rowOK r = true) : inRow x r = true ↔ rowHit x r := by
  obtain ⟨hwf, e1, e2, e3⟩ := rowOK_spec r h
  unfold inRow rowHit
  have := contains_own_iff (rowCont r) x hwf hx
  rw [this, e1, e2, e3]
  constructor
  · rintro ⟨a, b, c⟩; exact ⟨a.symm, b, c⟩
  · rintro ⟨a, b, c⟩; exact ⟨a.symm, b, c⟩

theorem scan_iff (x : Obj) (hx : x.WF) : ∀ (t : List Row), (∀ r ∈ t, rowOK r = true) →
    (scan x t = true ↔ ∃ r ∈ t, rowHit x r)
  | [], _ => by simp [scan]
  | r :: rest, h => by
    have ih := scan_iff x hx rest (fun q hq => h q (List.mem_cons_of_mem _ hq))
    have hr := inRow_iff x hx r (h r (List.mem_cons_self ..))
    unfold scan
    by_cases hh : inRow x r = true
    · rw [if_pos hh]
      exact ⟨fun _ => ⟨r, List.mem_cons_self .., hr.1 hh⟩, fun _ => rfl⟩
    · rw [if_neg hh, ih]
      constructor
      · rintro ⟨q, hq, hq2⟩; exact ⟨q, List.mem_cons_of_mem _ hq, hq2⟩
      · rintro ⟨q, hq, hq2⟩
        rcases List.mem_cons.1 hq with rfl | hq
        · exact absurd (hr.2 hq2) hh
        · exact ⟨q, hq, hq2⟩

theorem inSingle_eq_scan (x : Obj) (t : List Row) (h : t.length = 1) : inSingle x t = scan x t := by
  match t, h with
  | [r], _ => simp [inSingle, scan]

/-- the version dispatch `if version == 4: scan(T4) elif version == 6: scan(T6)` -/
theorem dispatch_iff (x : Obj) (hx : x.WF) (hv : x.ver = 4 ∨ x.ver = 6) (t4 t6 : List Row)
    (h4 : ∀ r ∈ t4, rowOK r = true ∧ r.2.1 = 4) (h6 : ∀ r ∈ t6, rowOK r = true ∧ r.2.1 = 6) :
    ((if x.ver = 4 then scan x t4 else if x.ver = 6 then scan x t6 else false) = true) ↔
      ∃ r ∈ t4 ++ t6, rowHit x r := by
  have s4 := scan_iff x hx t4 (fun r hr => (h4 r hr).1)
  have s6 := scan_iff x hx t6 (fun r hr => (h6 r hr).1)
  rcases hv with hv | hv
  · rw [if_pos hv, s4]
    constructor
    · rintro ⟨r, hr, h⟩; exact ⟨r, List.mem_append_left _ hr, h⟩
    · rintro ⟨r, hr, h⟩
      rcases List.mem_append.1 hr with hr | hr
      · exact ⟨r, hr, h⟩
      · have := (h6 r hr).2; have := h.1; omega
  · rw [if_neg (by omega), if_pos hv, s6]
    constructor
    · rintro ⟨r, hr, h⟩; exact ⟨r, List.mem_append_right _ hr, h⟩
    · rintro ⟨r, hr, h⟩
      rcases List.mem_append.1 hr with hr | hr
      · have := (h4 r hr).2; have := h.1; omega
      · exact ⟨r, hr, h⟩

/-- checkable: the rows of a table, as intervals, are the same set as a spec list -/
def sameSet (t : List Row) (s : List Iv) : Bool :=
  (t.all fun r => s.contains (rowIv r)) && (s.all fun b => (t.map rowIv).contains b)

theorem sameSet_spec (t : List Row) (s : List Iv) (h : sameSet t s = true) (x : Obj) :
    (∃ r ∈ t, rowHit x r) ↔ InAny s x.ver x.first x.last := by
  unfold sameSet at h
  simp only [Bool.and_eq_true, List.all_eq_true, List.contains_iff_mem, List.mem_map] at h
  obtain ⟨h1, h2⟩ := h
  unfold InAny
  constructor
  · rintro ⟨r, hr, a, b, c⟩
    exact ⟨rowIv r, h1 r hr, a, b, c⟩
  · rintro ⟨b, hb, a, c, d⟩
    obtain ⟨r, hr, e⟩ := h2 b hb
    subst e
    exact ⟨r, hr, a, c, d⟩

/-- checkable per-table side conditions -/
def tableOK (ver : Nat) (t : List Row) : Bool := t.all fun r => rowOK r && r.2.1 == ver

theorem tableOK_spec (ver : Nat) (t : List Row) (h : tableOK ver t = true) :
    ∀ r ∈ t, rowOK r = true ∧ r.2.1 = ver := by
  unfold tableOK at h
  simp only [List.all_eq_true, Bool.and_eq_true, beq_iff_eq] at h
  exact h

end NV.Classify
