/-
Lemmas/C17LGlob.lean — the glob grammar (spec side of C17) and the proof that `valid_glob`'s
two loops accept exactly it.
-/
import NetaddrVerif.Lemmas.C17LNum
namespace NV.C17
open NV NV.Glob

/-- a parsed glob octet -/
inductive Oct where
  | lit (n : Nat)
  | hyp (a b : Nat)
  | star
deriving DecidableEq, Repr

def Oct.lo : Oct → Nat
  | .lit n => n
  | .hyp a _ => a
  | .star => 0
def Oct.hi : Oct → Nat
  | .lit n => n
  | .hyp _ b => b
  | .star => 255
def Oct.isStar : Oct → Bool
  | .star => true
  | _ => false
/-- an octet value matches a glob octet -/
def Oct.matches (o : Oct) (v : Nat) : Prop := o.lo ≤ v ∧ v ≤ o.hi
/-- bounds a parsed octet satisfies -/
def Oct.WF : Oct → Prop
  | .lit n => n ≤ 255
  | .hyp a b => a < b ∧ b ≤ 255
  | .star => True

/-- GRAMMAR of one octet: `*`, a plain decimal numeral 0..255, or `x-y` with plain decimal
    `x < y ≤ 255` -/
def parseOct (t : List Char) : Option Oct :=
  if t = ['*'] then some .star
  else match t.splitOn '-' with
    | [x] => if plainNum x = true ∧ numVal x ≤ 255 then some (.lit (numVal x)) else none
    | [x, y] =>
      if plainNum x = true ∧ plainNum y = true ∧ numVal x < numVal y ∧ numVal y ≤ 255
      then some (.hyp (numVal x) (numVal y)) else none
    | _ => none

/-- literals, then at most one hyphenated octet, then only asterisks -/
def shapeOk : List Oct → Bool
  | [] => true
  | .lit _ :: r => shapeOk r
  | _ :: r => r.all Oct.isStar

def mapOpt {α β : Type} (f : α → Option β) : List α → Option (List β)
  | [] => some []
  | a :: l =>
    match f a with
    | none => none
    | some b =>
      match mapOpt f l with
      | none => none
      | some bs => some (b :: bs)

/-- GRAMMAR of a glob: four dot-separated octets of the right shape -/
def globParse (s : List Char) : Option (List Oct) :=
  match mapOpt parseOct (s.splitOn '.') with
  | some os => if os.length = 4 ∧ shapeOk os = true then some os else none
  | none => none

def GlobGrammar (s : List Char) : Prop := (globParse s).isSome = true

instance (s : List Char) : Decidable (GlobGrammar s) := by unfold GlobGrammar; infer_instance

theorem mapM_opt_cons {α β : Type} (f : α → Option β) (a : α) (l : List α) :
    (a :: l).mapM f = match f a with
      | none => none
      | some b => match l.mapM f with
        | none => none
        | some bs => some (b :: bs) := by
  rw [List.mapM_cons]
  cases f a with
  | none => rfl
  | some b => cases l.mapM f <;> rfl

theorem mapM_opt_nil {α β : Type} (f : α → Option β) : ([] : List α).mapM f = some [] := rfl

theorem mapOpt_length {α β : Type} (f : α → Option β) : ∀ (l : List α) (r : List β),
    mapOpt f l = some r → r.length = l.length := by
  intro l
  induction l with
  | nil => intro r h; simp [mapOpt] at h; subst h; rfl
  | cons a l ih =>
    intro r h
    simp only [mapOpt] at h
    cases hf : f a with
    | none => simp [hf] at h
    | some b =>
      cases hm : mapOpt f l with
      | none => simp [hf, hm] at h
      | some bs =>
        simp [hf, hm] at h; subst h
        simp [ih bs hm]

theorem mapM_len3 {β : Type} (f : List Char → Option β) (x y z : List Char) (r : List (List Char)) :
    ∀ a b, (x :: y :: z :: r).mapM f ≠ some [a, b] := by
  intro a b
  rw [mapM_opt_cons]
  cases f x with
  | none => simp
  | some p =>
    rw [mapM_opt_cons]
    cases f y with
    | none => simp
    | some q =>
      rw [mapM_opt_cons]
      cases f z with
      | none => simp
      | some u =>
        cases List.mapM f r <;> simp

/-- a string containing the separator splits into at least two parts -/
theorem splitOn_of_mem {a : Char} {o : List Char} (h : a ∈ o) :
    ∃ x y r, o.splitOn a = x :: y :: r := by
  obtain ⟨as, bs, e, hn⟩ := List.eq_append_cons_of_mem h
  subst e
  rw [List.splitOn_append_cons_self_of_not_mem hn]
  cases hs : bs.splitOn a with
  | nil => exact absurd hs (List.splitOn_ne_nil a bs)
  | cons y r => exact ⟨as, y, r, rfl⟩

/-- state after an accepted octet -/
def stOf : Oct → St
  | .lit _ => ⟨false, false⟩
  | .hyp _ _ => ⟨true, false⟩
  | .star => ⟨false, true⟩

theorem numeralOk_cases {t : List Char} (h : numeralOk t = true) : t = ['*'] ∨ plainNum t = true := by
  rw [numeralOk_eq] at h
  by_cases e : t = ['*']
  · exact Or.inl e
  · right; simpa [e] using h

/-- in the initial state the second loop accepts an octet (that passed the first loop)
    exactly when the grammar parses it -/
theorem step_ff (o : List Char) (h1 : (o.splitOn '-').all numeralOk = true) :
    stepOctet ⟨false, false⟩ o = (parseOct o).map stOf := by
  by_cases hm : '-' ∈ o
  · obtain ⟨x, y, r, hs⟩ := splitOn_of_mem hm
    have hne : o ≠ ['*'] := by intro e; subst e; revert hm; decide
    have hc : o.contains '-' = true := List.contains_iff_mem.2 hm
    rw [hs] at h1
    simp only [List.all_cons, Bool.and_eq_true] at h1
    obtain ⟨hx, hy, hr⟩ := h1
    unfold stepOctet parseOct
    simp only [hc, if_true, Bool.false_eq_true, if_false, hne, hs]
    cases r with
    | cons z r' =>
      have := mapM_len3 (Py.pyInt 10) x y z r'
      cases hmm : (x :: y :: z :: r').mapM (Py.pyInt 10) with
      | none => rfl
      | some l =>
        match l, hmm with
        | [], _ => rfl
        | [_], _ => rfl
        | [a, b], hmm => exact absurd hmm (this a b)
        | _ :: _ :: _ :: _, _ => rfl
    | nil =>
      rw [mapM_opt_cons, mapM_opt_cons, mapM_opt_nil]
      rcases numeralOk_cases hx with ex | px
      · subst ex; simp [pyInt_star, plain_star]
      · rcases numeralOk_cases hy with ey | py
        · subst ey; simp [pyInt_star, plain_star, pyInt_plain x px]
        · simp only [pyInt_plain x px, pyInt_plain y py, px, py, true_and]
          by_cases hlt : numVal x < numVal y
          · by_cases hle : numVal y ≤ 255
            · have c1 : ¬ ((numVal x : Int) ≥ (numVal y : Int)) := by omega
              have c2 : (0 ≤ (numVal x : Int) ∧ (numVal x : Int) ≤ 254) := by omega
              have c3 : (1 ≤ (numVal y : Int) ∧ (numVal y : Int) ≤ 255) := by omega
              simp [c1, c2, c3, hlt, hle, stOf]
            · have c1 : ¬ ((numVal x : Int) ≥ (numVal y : Int)) := by omega
              have c3 : ¬ (1 ≤ (numVal y : Int) ∧ (numVal y : Int) ≤ 255) := by omega
              simp [c1, c3, hlt, hle]
          · have c1 : ((numVal x : Int) ≥ (numVal y : Int)) := by omega
            simp [c1, hlt]
  · have hs : o.splitOn '-' = [o] := List.splitOn_eq_singleton hm
    have hc : o.contains '-' = false := by
      rw [Bool.eq_false_iff]; intro h; exact hm (List.contains_iff_mem.1 h)
    rw [hs] at h1
    simp only [List.all_cons, List.all_nil, Bool.and_true] at h1
    unfold stepOctet parseOct
    simp only [hc, Bool.false_eq_true, if_false, hs]
    by_cases e : o = ['*']
    · subst e; simp [stOf]
    · have po : plainNum o = true := (numeralOk_cases h1).resolve_left e
      have e' : (o == ['*']) = false := by rw [beq_eq_false_iff_ne]; exact e
      simp only [e', Bool.false_eq_true, if_false, e, pyInt_plain o po, po, true_and]
      by_cases hle : numVal o ≤ 255
      · have : (0 ≤ (numVal o : Int) ∧ (numVal o : Int) ≤ 255) := by omega
        simp [this, hle, stOf]
      · simp [hle]; omega

/-- once a hyphen or an asterisk was seen the second loop accepts only `*` -/
theorem step_locked (st : St) (hst : st.hyph = true ∨ st.ast = true) (o : List Char) :
    stepOctet st o = if o = ['*'] then some ⟨st.hyph, true⟩ else none := by
  unfold stepOctet
  by_cases e : o = ['*']
  · subst e
    simp
  · have e' : (o == ['*']) = false := by rw [beq_eq_false_iff_ne]; exact e
    simp only [e', e, Bool.false_eq_true, if_false]
    rcases hst with h | h
    · simp [h]
    · by_cases hc : o.contains '-' = true
      · simp only [hc, if_true, h]
        cases st.hyph <;> simp
      · simp only [hc, h]
        cases st.hyph <;> simp

/-- what the grammar accepts passes the first loop -/
theorem parse_firstloop (o : List Char) (oc : Oct) (h : parseOct o = some oc) :
    (o.splitOn '-').all numeralOk = true := by
  unfold parseOct at h
  by_cases e : o = ['*']
  · subst e; decide
  · simp only [e, if_false] at h
    split at h
    · next x hs =>
      split at h
      · next hc => rw [hs]; simp [numeralOk_eq, hc.1]
      · exact absurd h (by simp)
    · next x y hs =>
      split at h
      · next hc => rw [hs]; simp [numeralOk_eq, hc.1, hc.2.1]
      · exact absurd h (by simp)
    · exact absurd h (by simp)

theorem parse_star_iff (o : List Char) : parseOct o = some .star ↔ o = ['*'] := by
  constructor
  · intro h
    unfold parseOct at h
    by_cases e : o = ['*']
    · exact e
    · simp only [e, if_false] at h
      split at h <;> (try split at h) <;> simp at h
  · intro e; subst e; rfl

theorem mapOpt_cons_some {α β : Type} {f : α → Option β} {a : α} {l : List α} {r : List β}
    (h : mapOpt f (a :: l) = some r) : ∃ b bs, f a = some b ∧ mapOpt f l = some bs ∧ r = b :: bs := by
  simp only [mapOpt] at h
  cases hf : f a with
  | none => simp [hf] at h
  | some b =>
    cases hm : mapOpt f l with
    | none => simp [hf, hm] at h
    | some bs => simp [hf, hm] at h; exact ⟨b, bs, rfl, rfl, h.symm⟩

theorem machine_locked : ∀ (octs : List (List Char)) (st : St), (st.hyph = true ∨ st.ast = true) →
    machine st octs = octs.all (fun o => o == ['*']) := by
  intro octs
  induction octs with
  | nil => intro st _; rfl
  | cons o r ih =>
    intro st hst
    simp only [machine, step_locked st hst o, List.all_cons]
    by_cases e : o = ['*']
    · subst e
      simp only [if_true, beq_self_eq_true, Bool.true_and]
      exact ih _ (Or.inr rfl)
    · have e' : (o == ['*']) = false := by rw [beq_eq_false_iff_ne]; exact e
      simp [e, e']

theorem stars_of_parse : ∀ (r : List (List Char)) (os : List Oct), mapOpt parseOct r = some os →
    os.all Oct.isStar = true → r.all (fun o => o == ['*']) = true := by
  intro r
  induction r with
  | nil => intro os _ _; rfl
  | cons o r ih =>
    intro os h hs
    obtain ⟨oc, os', h1, h2, e⟩ := mapOpt_cons_some h
    subst e
    simp only [List.all_cons, Bool.and_eq_true] at hs ⊢
    refine ⟨?_, ih os' h2 hs.2⟩
    cases oc with
    | star => rw [(parse_star_iff o).1 h1]; rfl
    | lit n => simp [Oct.isStar] at hs
    | hyp a b => simp [Oct.isStar] at hs

theorem parse_of_stars : ∀ (r : List (List Char)), r.all (fun o => o == ['*']) = true →
    ∃ os, mapOpt parseOct r = some os ∧ os.all Oct.isStar = true := by
  intro r
  induction r with
  | nil => intro _; exact ⟨[], rfl, rfl⟩
  | cons o r ih =>
    intro h
    simp only [List.all_cons, Bool.and_eq_true, beq_iff_eq] at h
    obtain ⟨os, h1, h2⟩ := ih h.2
    refine ⟨.star :: os, ?_, ?_⟩
    · simp [mapOpt, (parse_star_iff o).2 h.1, h1]
    · simp [Oct.isStar, h2]

theorem firstloop_of_parse : ∀ (r : List (List Char)) (os : List Oct), mapOpt parseOct r = some os →
    r.all (fun o => (o.splitOn '-').all numeralOk) = true := by
  intro r
  induction r with
  | nil => intro _ _; rfl
  | cons o r ih =>
    intro os h
    obtain ⟨oc, os', h1, h2, _⟩ := mapOpt_cons_some h
    simp only [List.all_cons, Bool.and_eq_true]
    exact ⟨parse_firstloop o oc h1, ih os' h2⟩

/-- the two loops of `valid_glob` on a list of octets = the grammar on that list -/
theorem loops_iff : ∀ (octs : List (List Char)),
    (octs.all (fun o => (o.splitOn '-').all numeralOk) = true ∧ machine ⟨false, false⟩ octs = true) ↔
    ∃ os, mapOpt parseOct octs = some os ∧ shapeOk os = true := by
  intro octs
  induction octs with
  | nil => exact ⟨fun _ => ⟨[], rfl, rfl⟩, fun _ => ⟨rfl, rfl⟩⟩
  | cons o r ih =>
    constructor
    · rintro ⟨hf, hm⟩
      simp only [List.all_cons, Bool.and_eq_true] at hf
      simp only [machine, step_ff o hf.1] at hm
      cases hp : parseOct o with
      | none => simp [hp] at hm
      | some oc =>
        simp only [hp, Option.map_some] at hm
        cases oc with
        | lit n =>
          obtain ⟨os, h1, h2⟩ := ih.1 ⟨hf.2, hm⟩
          exact ⟨.lit n :: os, by simp [mapOpt, hp, h1], by simpa [shapeOk] using h2⟩
        | hyp a b =>
          rw [machine_locked r _ (Or.inl rfl)] at hm
          obtain ⟨os, h1, h2⟩ := parse_of_stars r hm
          exact ⟨.hyp a b :: os, by simp [mapOpt, hp, h1], by simpa [shapeOk] using h2⟩
        | star =>
          rw [machine_locked r _ (Or.inr rfl)] at hm
          obtain ⟨os, h1, h2⟩ := parse_of_stars r hm
          exact ⟨.star :: os, by simp [mapOpt, hp, h1], by simpa [shapeOk] using h2⟩
    · rintro ⟨os, h, hs⟩
      have hfl := firstloop_of_parse _ _ h
      refine ⟨hfl, ?_⟩
      obtain ⟨oc, os', h1, h2, e⟩ := mapOpt_cons_some h
      subst e
      simp only [List.all_cons, Bool.and_eq_true] at hfl
      simp only [machine, step_ff o hfl.1, h1, Option.map_some]
      cases oc with
      | lit n => exact (ih.2 ⟨os', h2, by simpa [shapeOk] using hs⟩).2
      | hyp a b =>
        rw [machine_locked r _ (Or.inl rfl)]
        exact stars_of_parse r os' h2 (by simpa [shapeOk] using hs)
      | star =>
        rw [machine_locked r _ (Or.inr rfl)]
        exact stars_of_parse r os' h2 (by simpa [shapeOk] using hs)

/-- `valid_glob` accepts exactly the grammar -/
theorem validGlob_iff_parse (s : List Char) : validGlob s = true ↔ ∃ os, globParse s = some os := by
  unfold validGlob globParse
  by_cases hl : (s.splitOn '.').length = 4
  · simp only [hl, ne_eq, not_true_eq_false, if_false]
    by_cases hf : (s.splitOn '.').all (fun o => (o.splitOn '-').all numeralOk) = true
    · simp only [hf, Bool.not_true, Bool.false_eq_true, if_false]
      constructor
      · intro hm
        obtain ⟨os, h1, h2⟩ := (loops_iff _).1 ⟨hf, hm⟩
        have := mapOpt_length _ _ _ h1
        exact ⟨os, by simp [h1, h2, this, hl]⟩
      · rintro ⟨os, h⟩
        cases hm : mapOpt parseOct (s.splitOn '.') with
        | none => simp [hm] at h
        | some os' =>
          simp only [hm] at h
          split at h
          · next hc => exact ((loops_iff _).2 ⟨os', hm, hc.2⟩).2
          · exact absurd h (by simp)
    · simp only [hf, Bool.not_false, if_true, Bool.false_eq_true, false_iff]
      rintro ⟨os, h⟩
      cases hm : mapOpt parseOct (s.splitOn '.') with
      | none => simp [hm] at h
      | some os' => exact hf (firstloop_of_parse _ _ hm)
  · simp only [hl, ne_eq, not_false_eq_true, if_true, Bool.false_eq_true, false_iff]
    rintro ⟨os, h⟩
    cases hm : mapOpt parseOct (s.splitOn '.') with
    | none => simp [hm] at h
    | some os' =>
      simp only [hm] at h
      split at h
      · next hc => exact hl (by rw [← mapOpt_length _ _ _ hm]; exact hc.1)
      · exact absurd h (by simp)

end NV.C17
