/-
Lemmas/TieL.lean — cast lemmas between the translator's `Int` vocabulary (`Model/PyOps.lean`)
and the `Nat` vocabulary of the hand-written model.  Core Lean only.
-/
import NetaddrVerif.Model.PyOps
import NetaddrVerif.Model.Network
import NetaddrVerif.Model.Address
namespace NV.Py
open NV

theorem shl_ofNat (a : Nat) (n : Int) (hn : 0 ≤ n) : shl (a : Int) n = ((a <<< n.toNat : Nat) : Int) := by
  unfold shl
  rw [Int.shiftLeft_eq, Nat.shiftLeft_eq]
  push_cast
  rfl

theorem shr_ofNat (a : Nat) (n : Int) : shr (a : Int) n = ((a >>> n.toNat : Nat) : Int) := by
  unfold shr
  rfl

theorem one_shl_sub (w p : Nat) (h : p ≤ w) :
    shl (1 : Int) ((w : Int) - (p : Int)) = ((1 <<< (w - p) : Nat) : Int) := by
  have : ((w : Int) - (p : Int)).toNat = w - p := by omega
  have h0 : (0 : Int) ≤ (w : Int) - (p : Int) := by omega
  have := shl_ofNat 1 ((w : Int) - (p : Int)) h0
  simp_all

theorem one_shl_pos (k : Nat) : 1 ≤ (1 <<< k : Nat) := by
  rw [Nat.one_shiftLeft]; exact Nat.pos_of_ne_zero (by simp)

/-- `(1 << (w - p)) - 1` -/
theorem hostmask_cast (w p : Nat) (h : p ≤ w) :
    shl (1 : Int) ((w : Int) - (p : Int)) - 1 = ((hostmaskInt w p : Nat) : Int) := by
  rw [one_shl_sub w p h]
  unfold hostmaskInt
  have := one_shl_pos (w - p)
  omega

theorem ior_nat (a : Nat) (x : Int) : ior (a : Int) x = Address.pyOr a x := by
  cases x <;> rfl
theorem iand_nat (a : Nat) (x : Int) : iand (a : Int) x = Address.pyAnd a x := by
  cases x <;> rfl
theorem ixor_nat (a : Nat) (x : Int) : ixor (a : Int) x = Address.pyXor a x := by
  cases x <;> rfl

end NV.Py
