import NetaddrVerif.Lemmas.Canon

namespace NV

-- Prototype: a canonical list is length-minimal among aligned block lists with the same denotation
open Blk

theorem count_le : ∀ (l l' : List Blk),
    l.Pairwise (fun b c => b.disj c) → (∀ b ∈ l, ∃ c ∈ l', c.sub b) → l.length ≤ l'.length
  | [], _, _, _ => Nat.zero_le _
  | b :: t, l', hd, h => by
    obtain ⟨c, hc, hcb⟩ := h b (by simp)
    have hp := List.pairwise_cons.1 hd
    have ih := count_le t (l'.erase c) hp.2 (by
      intro b' hb'
      obtain ⟨c', hc', hcb'⟩ := h b' (List.mem_cons_of_mem _ hb')
      refine ⟨c', ?_, hcb'⟩
      have hne : c' ≠ c := by
        intro e; subst e
        exact hp.1 b' hb' c'.base ⟨hcb _ (mem_base c'), hcb' _ (mem_base c')⟩
      exact (List.mem_erase_of_ne hne).2 hc')
    rw [List.length_erase_of_mem hc] at ih
    have : 0 < l'.length := List.length_pos_of_mem hc
    simp only [List.length_cons]; omega

theorem canon_minimal (l l' : List Blk) (hc : Canon l) (hal : ∀ c ∈ l', c.aligned)
    (hden : ∀ a, den l' a ↔ den l a) : l.length ≤ l'.length := by
  apply count_le
  · -- members of a sorted canonical list are pairwise disjoint
    have hs := hc.sorted
    have : ∀ (m : List Blk), (∀ b ∈ m, b ∈ l) → m.Pairwise (fun b c => b.base < c.base) →
        m.Pairwise (fun b c => b.disj c) := by
      intro m hm hp
      induction m with
      | nil => exact List.Pairwise.nil
      | cons x xs ih =>
        have hx := List.pairwise_cons.1 hp
        refine List.pairwise_cons.2 ⟨?_, ih (fun b hb => hm b (List.mem_cons_of_mem _ hb)) hx.2⟩
        intro y hy
        have hne : x ≠ y := by intro e; subst e; have := hx.1 x hy; omega
        exact hc.dj x (hm x (by simp)) y (hm y (List.mem_cons_of_mem _ hy)) hne
    exact this l (fun _ h => h) hs
  · intro b hb
    have hmax := canon_mem_maximal l hc b hb
    obtain ⟨c, hcl, hcb⟩ := (hden b.base).2 ⟨b, hb, mem_base b⟩
    refine ⟨c, hcl, ?_⟩
    rcases Nat.lt_or_ge b.k c.k with hlt | hge
    · exfalso
      apply hmax.2.2
      intro x hx
      have hpk : b.parent.k ≤ c.k := by simp [parent]; omega
      have hsub := sub_of_share b.parent c (parent_aligned b) (hal c hcl) hpk b.base
        (sub_parent b hmax.1 _ (mem_base b)) hcb
      exact (hden x).1 ⟨c, hcl, hsub x hx⟩
    · exact sub_of_share c b (hal c hcl) hmax.1 hge b.base hcb (mem_base b)

end NV
