/-
Lemmas/C16L.lean — helper lemmas of property C16 (closed forms of the four conversions).
-/
import NetaddrVerif.Model.Convert
import NetaddrVerif.Lemmas.C14L
namespace NV.C16
open NV NV.Address NV.Convert

theorem w4 : width 4 = 32 := by decide
theorem w6 : width 6 = 128 := by decide
theorem m4 : maxInt 4 = 4294967295 := by decide
theorem m6 : maxInt 6 = 340282366920938463463374607431768211455 := by decide
theorem p4 : (2 : Nat) ^ width 4 = 4294967296 := by decide
theorem p6 : (2 : Nat) ^ width 6 = 340282366920938463463374607431768211456 := by decide
theorem lo_eq : mappedLo = 281470681743360 := by decide
theorem hi_eq : mappedHi = 281474976710655 := by decide

/-- the explicit-version constructor on an in-range value -/
theorem ctor_ok (x : Int) (v : Nat) (hv : v = 4 ∨ v = 6) (h0 : 0 ≤ x) (h1 : x < ((2 ^ width v : Nat) : Int)) :
    ctor x (some v) = .ok ⟨v, x.toNat⟩ := by
  rw [C14.ctor_some x v hv]; unfold C14.checked; rw [if_pos ⟨h0, h1⟩]

theorem ctor4_ok (k : Nat) (h : k < 4294967296) : ctor (k : Int) (some 4) = .ok ⟨4, k⟩ := by
  rw [ctor_ok _ 4 (Or.inl rfl) (by omega) (by rw [p4]; omega)]; rfl

theorem ctor6_ok (k : Nat) (h : k < 340282366920938463463374607431768211456) :
    ctor (k : Int) (some 6) = .ok ⟨6, k⟩ := by
  rw [ctor_ok _ 6 (Or.inr rfl) (by omega) (by rw [p6]; omega)]; rfl

/-- the explicit-version constructor on an `Int` expression known to be the natural number `k` -/
theorem ctor_ok' (v : Nat) (hv : v = 4 ∨ v = 6) (x : Int) (k : Nat) (hx : x = (k : Int)) (hk : k < 2 ^ width v) :
    ctor x (some v) = .ok ⟨v, k⟩ := by
  subst hx
  rw [ctor_ok _ v hv (by omega) (by omega)]; rfl

theorem mkNet_ok' (ver : Nat) (x p : Int) (k q : Nat) (hx : x = (k : Int)) (hp : p = (q : Int))
    (hk : k < 2 ^ width ver) (hq : q ≤ width ver) : mkNet ver x p = .ok ⟨ver, k, q⟩ := by
  subst hx; subst hp
  have hm := C14.maxInt_cast ver
  unfold mkNet
  rw [if_neg (by omega), if_neg (by omega)]
  rfl

theorem mkNet_ok (ver k p : Nat) (hk : k < 2 ^ width ver) (hp : p ≤ width ver) :
    mkNet ver (k : Int) (p : Int) = .ok ⟨ver, k, p⟩ := by
  have hm := C14.maxInt_cast ver
  unfold mkNet
  rw [if_neg (by omega), if_neg (by omega)]
  rfl

/-- which /96 block of the IPv6 space a value lies in -/
theorem shr32 (v : Nat) : v >>> 32 = v / 4294967296 := by
  rw [Nat.shiftRight_eq_div_pow]

end NV.C16
