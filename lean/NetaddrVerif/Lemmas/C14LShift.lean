/-
Lemmas/C14LShift.lean — `a << x`, `a >> x` for every right operand (any int count, either sign;
an IPAddress), and the reflected `n << a`, `n >> a`.
-/
import NetaddrVerif.Lemmas.C14L
namespace NV.C14L.Shift
open NV NV.Address NV.C14

/-- what the real code does for `a << x` / `a >> x`, spelled out independently of the model's
    control flow: TypeError for an address operand, ValueError for a negative count, otherwise
    `checked` of the exact `value · 2^n` resp. `⌊value / 2^n⌋` -/
def shiftSpec (left : Bool) (a : Addr) : Operand → R Addr
  | .addr _ => .error .type_
  | .int n =>
    if n < 0 then .error .value
    else if left then checked a.ver (((a.val * 2 ^ n.toNat : Nat)) : Int) .addrFormat
    else checked a.ver (((a.val / 2 ^ n.toNat : Nat)) : Int) .addrFormat

theorem lshift_spec (a : Addr) (x : Operand) (h : a.WF) : lshift a x = shiftSpec true a x := by
  cases x with
  | addr b => rfl
  | int n =>
    simp only [lshift, pyShl, shiftSpec]
    by_cases hn : n < 0
    · simp only [if_pos hn]; rfl
    · simp only [if_neg hn, if_true]
      show ctor ((a.val <<< n.toNat : Nat) : Int) (some a.ver) = _
      rw [ctor_some _ _ h.1, Nat.shiftLeft_eq]

theorem rshift_spec (a : Addr) (x : Operand) (h : a.WF) : rshift a x = shiftSpec false a x := by
  cases x with
  | addr b => rfl
  | int n =>
    simp only [rshift, pyShr, shiftSpec]
    by_cases hn : n < 0
    · simp only [if_pos hn]; rfl
    · simp only [if_neg hn, Bool.false_eq_true, if_false]
      show ctor ((a.val >>> n.toNat : Nat) : Int) (some a.ver) = _
      rw [ctor_some _ _ h.1, Nat.shiftRight_eq_div_pow]

/-- the old `n ≥ 0` operators are the int case of the new ones -/
theorem lshift_nat (a : Addr) (n : Nat) : lshift a (.int (n : Int)) = shl a n := by
  simp only [lshift, pyShl, shl]
  rw [if_neg (by omega)]; rfl

theorem rshift_nat (a : Addr) (n : Nat) : rshift a (.int (n : Int)) = shr a n := by
  simp only [rshift, pyShr, shr]
  rw [if_neg (by omega)]; rfl

/-- a right shift by a count `≥ 0` never fails (the quotient is ≤ the value) -/
theorem rshift_ok (a : Addr) (n : Int) (h : a.WF) (hn : 0 ≤ n) :
    rshift a (.int n) = .ok ⟨a.ver, a.val / 2 ^ n.toNat⟩ := by
  rw [rshift_spec a _ h]
  simp only [shiftSpec]
  rw [if_neg (by omega)]
  have hle : a.val / 2 ^ n.toNat ≤ a.val := Nat.div_le_self _ _
  have := h.2
  simp only [Bool.false_eq_true, if_false]
  generalize a.val / 2 ^ n.toNat = q at hle ⊢
  unfold checked
  rw [if_pos ⟨by omega, by omega⟩]; rfl

/-- a left shift of a non-zero address by `width` or more always overflows; of the zero address
    never -/
theorem lshift_wide (a : Addr) (n : Int) (h : a.WF) (hn : (width a.ver : Int) ≤ n) :
    lshift a (.int n) = if a.val = 0 then .ok ⟨a.ver, 0⟩ else .error .addrFormat := by
  rw [lshift_spec a _ h]
  simp only [shiftSpec]
  rw [if_neg (by omega)]
  simp only [if_true]
  by_cases hz : a.val = 0
  · rw [hz, if_pos rfl, Nat.zero_mul]
    unfold checked
    have := NV.two_pow_pos (width a.ver)
    rw [if_pos ⟨by omega, by omega⟩]; rfl
  · rw [if_neg hz]
    unfold checked
    have hw : width a.ver ≤ n.toNat := by omega
    have h1 : 2 ^ width a.ver ≤ 2 ^ n.toNat := Nat.pow_le_pow_right (by decide) hw
    have h2 : 2 ^ n.toNat ≤ a.val * 2 ^ n.toNat := Nat.le_mul_of_pos_left _ (by omega)
    rw [if_neg (by omega)]

end NV.C14L.Shift
