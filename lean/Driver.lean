/-
Driver.lean — line protocol main.  One operation per line: `op arg1 arg2 …` (single spaces).
Each property's ops live in NetaddrVerif/Driver/Cxx.lean (`handle : String → List String →
Option String`); the first handler that recognises the op answers.  Imports only Model and
Gen (no Mathlib), so it links as a native executable.
-/
import NetaddrVerif.Driver.All

partial def loop (h : IO.FS.Stream) (out : IO.FS.Stream) : IO Unit := do
  let line ← h.getLine
  if line.isEmpty then return ()
  let toks := (line.trimAscii.toString.splitOn " ")
  match toks with
  | [] => out.putStrLn "?empty"
  | op :: args =>
    match NV.Driver.dispatch op args with
    | some s => out.putStrLn s
    | none => out.putStrLn "?bad-op"
  loop h out

def main : IO Unit := do
  let out ← IO.getStdout
  loop (← IO.getStdin) out
  out.flush
